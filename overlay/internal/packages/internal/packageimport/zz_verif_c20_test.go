//go:build verif

package packageimport

import (
	"bytes"
	"context"
	"encoding/json"
	"errors"
	"fmt"
	"runtime"
	"sync"
	"sync/atomic"
	"testing"
	"time"

	"github.com/google/go-containerregistry/pkg/crane"
	"k8s.io/apimachinery/pkg/types"
	"pgregory.net/rapid"
	"sigs.k8s.io/controller-runtime/pkg/client"

	"package-operator.run/internal/packages/internal/packagetypes"
)

type c20Op struct {
	Op     string `json:"op"` // request | complete | cancel
	Caller int    `json:"caller,omitempty"`
	Image  int    `json:"image,omitempty"`
	Fail   bool   `json:"fail,omitempty"`
	Files  int    `json:"files,omitempty"`
}

type c20Case struct {
	Part string  `json:"part"`
	Ops  []c20Op `json:"ops"`
}

type pullInvocation struct {
	image   string
	release chan response
}

type c20Result struct {
	caller int
	image  string
	pkg    *packagetypes.RawPackage
	err    error
	pull   int // id of the pull that was in flight when the caller registered
}

type c20World struct {
	rm          *RequestManager
	mu          sync.Mutex
	pending     map[string][]*pullInvocation // invocations started and not yet released
	active      map[string]int
	maxActive   int
	invocations map[string]int
	started     chan *pullInvocation
}

func newC20World() *c20World {
	w := &c20World{pending: map[string][]*pullInvocation{}, active: map[string]int{}, invocations: map[string]int{}, started: make(chan *pullInvocation, 64)}
	w.rm = &RequestManager{inFlight: make(map[string][]chan<- response)}
	w.rm.pullImage = func(_ context.Context, _ client.Client, _ types.NamespacedName, ref string, _ ...crane.Option) (*packagetypes.RawPackage, error) {
		inv := &pullInvocation{image: ref, release: make(chan response, 1)}
		w.mu.Lock()
		w.active[ref]++
		if w.active[ref] > w.maxActive {
			w.maxActive = w.active[ref]
		}
		w.invocations[ref]++
		w.pending[ref] = append(w.pending[ref], inv)
		w.mu.Unlock()
		w.started <- inv
		res := <-inv.release
		w.mu.Lock()
		w.active[ref]--
		w.mu.Unlock()
		return res.RawPackage, res.Err
	}
	return w
}

func (w *c20World) registered(image string) int {
	w.rm.inFlightLock.Lock()
	defer w.rm.inFlightLock.Unlock()
	return len(w.rm.inFlight[image])
}

func waitFor(cond func() bool) bool {
	deadline := time.Now().Add(3 * time.Second)
	for time.Now().Before(deadline) {
		if cond() {
			return true
		}
		runtime.Gosched()
		time.Sleep(50 * time.Microsecond)
	}
	return cond()
}

func c20Image(i int) string { return fmt.Sprintf("quay.io/verif/img-%d:v1", i) }

func runC20(c *c20Case) (labels map[string]bool, err error) {
	labels = map[string]bool{}
	w := newC20World()
	ctx := context.Background()
	type waiter struct {
		caller    int
		done      chan c20Result
		cancel    context.CancelFunc
		cancelled *bool
	}
	// model
	inFlight := map[string]bool{}
	waiters := map[string][]waiter{}
	expectedInvocations := map[string]int{}
	received := map[int][]c20Result{} // caller -> results
	var sources []*packagetypes.RawPackage
	completions := map[string]int{}
	for i, op := range c.Ops {
		img := c20Image(op.Image % 3)
		switch op.Op {
		case "request":
			before := w.registered(img)
			done := make(chan c20Result, 1)
			caller := op.Caller
			cctx, cancel := context.WithCancel(ctx)
			defer cancel()
			go func() {
				pkg, perr := w.rm.Pull(cctx, img)
				done <- c20Result{caller: caller, image: img, pkg: pkg, err: perr}
			}()
			if !waitFor(func() bool { return w.registered(img) == before+1 }) {
				return labels, Violf("C20", "request-not-registered", "step %d: request of caller %d for %s was not registered (receivers %d -> %d)", i, caller, img, before, w.registered(img))
			}
			if !inFlight[img] {
				expectedInvocations[img]++
				select {
				case <-w.started:
				case <-time.After(3 * time.Second):
					return labels, Violf("C20", "request-did-not-start-pull", "step %d: no pull is in flight for %s but the request of caller %d did not start one (a request after a broadcast would wait forever)", i, img, caller)
				}
				inFlight[img] = true
				if completions[img] > 0 {
					labels["request-after-completion"] = true
				}
			} else {
				select {
				case <-w.started:
					return labels, Violf("C20", "duplicate-pull", "step %d: a pull for %s is already in flight but the request of caller %d started another one", i, img, caller)
				case <-time.After(2 * time.Millisecond):
				}
			}
			waiters[img] = append(waiters[img], waiter{caller: caller, done: done, cancel: cancel, cancelled: new(bool)})
			if len(waiters[img]) >= 2 {
				labels["two-callers-one-pull"] = true
			}
		case "cancel":
			// a caller gives up while the pull it waits for is still running: whether it keeps waiting for the result or returns
			// at once with its context's error is the implementation's choice; the pull stays the one pull in flight
			for _, wt := range waiters[img] {
				if wt.caller == op.Caller && !*wt.cancelled {
					wt.cancel()
					*wt.cancelled = true
					labels["caller-cancelled-mid-pull"] = true
					time.Sleep(2 * time.Millisecond)
					break
				}
			}
		case "complete":
			if !inFlight[img] {
				continue
			}
			w.mu.Lock()
			inv := w.pending[img][0]
			w.pending[img] = w.pending[img][1:]
			w.mu.Unlock()
			var res response
			if op.Fail {
				res.Err = fmt.Errorf("scripted pull failure %d", i)
			} else {
				files := packagetypes.Files{}
				for f := 0; f <= op.Files%3; f++ {
					files[fmt.Sprintf("f%d.yaml", f)] = []byte(fmt.Sprintf("content-%d-%d", i, f))
				}
				if op.Files%2 == 1 {
					// an empty file as io.ReadAll returns it when importing an image: no bytes, but spare capacity
					files["empty.yaml"] = make([]byte, 0, 512)
				}
				res.RawPackage = &packagetypes.RawPackage{Files: files}
				sources = append(sources, res.RawPackage)
			}
			var snapshot *packagetypes.RawPackage
			if res.RawPackage != nil {
				snapshot = res.RawPackage.DeepCopy()
			}
			inv.release <- res
			for _, wt := range waiters[img] {
				select {
				case r := <-wt.done:
					if *wt.cancelled && errors.Is(r.err, context.Canceled) {
						// the caller had given up and was told so: that is its one response
						received[wt.caller] = append(received[wt.caller], c20Result{caller: wt.caller, image: img, err: r.err})
						continue
					}
					if (r.err != nil) != op.Fail || (op.Fail && r.err.Error() != res.Err.Error()) {
						return labels, Violf("C20", "wrong-response", "step %d: caller %d got err=%v for a pull that returned err=%v", i, wt.caller, r.err, res.Err)
					}
					if !op.Fail {
						if r.pkg == nil || !filesEqual(r.pkg.Files, snapshot.Files) {
							return labels, Violf("C20", "wrong-response", "step %d: caller %d received a package that differs from the pull result", i, wt.caller)
						}
					}
					received[wt.caller] = append(received[wt.caller], r)
				case <-time.After(3 * time.Second):
					return labels, Violf("C20", "caller-without-response", "step %d: caller %d registered for the pull of %s but never received a response", i, wt.caller, img)
				}
			}
			// no second response may arrive
			for _, wt := range waiters[img] {
				select {
				case r := <-wt.done:
					return labels, Violf("C20", "duplicate-response", "step %d: caller %d received a second response %v", i, wt.caller, r.err)
				default:
				}
			}
			if n := w.registered(img); n != 0 {
				return labels, Violf("C20", "stale-receivers-after-broadcast", "step %d: %d receivers still registered for %s after the broadcast", i, n, img)
			}
			waiters[img] = nil
			inFlight[img] = false
			completions[img]++
			// aliasing: all packages handed out for this pull and the source must not share memory
			if !op.Fail {
				var pkgs []*packagetypes.RawPackage
				for _, rs := range received {
					for _, r := range rs {
						if r.image == img && r.pkg != nil {
							pkgs = append(pkgs, r.pkg)
						}
					}
				}
				pkgs = append(pkgs, res.RawPackage)
				for a := 0; a < len(pkgs); a++ {
					for k, v := range pkgs[a].Files {
						if len(v) == 0 {
							// empty contents can still share their backing array: an append by one caller then lands in
							// the memory another caller's append will use
							if cap(v) > 0 {
								for b := 0; b < len(pkgs); b++ {
									if ov, ok := pkgs[b].Files[k]; a != b && ok && cap(ov) > 0 && &ov[:1][0] == &v[:1][0] {
										return labels, Violf("C20", "shared-backing-array", "step %d: two packages handed out for %s share the (empty, cap %d) backing array of %s", i, img, cap(v), k)
									}
								}
							}
							continue
						}
						old := v[0]
						v[0] ^= 0xff
						for b := 0; b < len(pkgs); b++ {
							if a != b {
								if ov, ok := pkgs[b].Files[k]; ok && len(ov) > 0 && &ov[0] == &v[0] {
									return labels, Violf("C20", "shared-backing-array", "step %d: two packages handed out for %s share the bytes of %s", i, img, k)
								}
							}
						}
						v[0] = old
					}
					pkgs[a].Files["mutated-by-harness"] = []byte{byte(a)}
					for b := 0; b < len(pkgs); b++ {
						if a != b {
							if _, leaked := pkgs[b].Files["mutated-by-harness"]; leaked && !bytes.Equal(pkgs[b].Files["mutated-by-harness"], []byte{byte(b)}) {
								return labels, Violf("C20", "shared-files-map", "step %d: adding a file to one caller's package became visible in another's", i)
							}
						}
					}
				}
				for _, p := range pkgs {
					delete(p.Files, "mutated-by-harness")
				}
				if len(pkgs) >= 3 {
					labels["aliasing-checked-across-callers"] = true
				}
			}
		}
		w.mu.Lock()
		ma := w.maxActive
		var inv map[string]int = map[string]int{}
		for k, v := range w.invocations {
			inv[k] = v
		}
		w.mu.Unlock()
		if ma > 1 {
			return labels, Violf("C20", "parallel-pulls-for-one-image", "step %d: %d pulls of one image were in flight at the same time", i, ma)
		}
		for im, n := range inv {
			if n != expectedInvocations[im] {
				return labels, Violf("C20", "unexpected-pull-count", "step %d: %d registry pulls for %s, model expects %d", i, n, im, expectedInvocations[im])
			}
		}
	}
	// release whatever is still blocked so goroutines end
	w.mu.Lock()
	for _, invs := range w.pending {
		for _, inv := range invs {
			inv.release <- response{Err: errors.New("shutdown")}
		}
	}
	w.mu.Unlock()
	return labels, nil
}

func filesEqual(a, b packagetypes.Files) bool {
	if len(a) != len(b) {
		return false
	}
	for k, v := range a {
		if !bytes.Equal(v, b[k]) {
			return false
		}
	}
	return true
}

func TestC20(t *testing.T) {
	st := NewStats("C20", "scripted", "case = harness-scheduled history of request(caller,image) / complete(image, package|error) / cancel(caller: the context of a waiting caller ends) over 3 images and up to 6 callers on the real RequestManager with a scripted, blocking pull function; each request is awaited until its receiver is registered so the interleaving of registration, completion and broadcast is chosen by the scenario; oracle = sequential model R-pull (one pull in flight per image, exactly one response per caller equal to the in-flight pull's result, fresh pull after a broadcast) + memory aliasing checks between all packages handed out; non-trivial = >=2 callers waited on one pull and a request arrived after a completion")
	CheckOrReplay(t, st, func(data []byte) (any, error) {
		var c c20Case
		if err := json.Unmarshal(data, &c); err != nil {
			return nil, err
		}
		_, err := runC20(&c)
		return &c, err
	}, func(rt *rapid.T) {
		c := &c20Case{Part: "scripted"}
		n := rapid.IntRange(2, 16).Draw(rt, "n")
		for i := 0; i < n; i++ {
			op := c20Op{Caller: rapid.IntRange(0, 5).Draw(rt, "caller"), Image: rapid.IntRange(0, 2).Draw(rt, "image")}
			if k := rapid.IntRange(0, 8).Draw(rt, "kind"); k < 5 {
				op.Op = "request"
			} else if k == 5 {
				op.Op = "cancel"
			} else {
				op.Op = "complete"
				op.Fail = rapid.IntRange(0, 3).Draw(rt, "fail") == 0
				op.Files = rapid.IntRange(0, 2).Draw(rt, "files")
			}
			c.Ops = append(c.Ops, op)
		}
		l, err := runC20(c)
		var ll []string
		for k := range l {
			ll = append(ll, k)
		}
		st.Case(c, l["two-callers-one-pull"] && l["request-after-completion"], ll...)
		st.Report(rt, c, err)
	})
}

// TestC20Free lets goroutines race freely (built with -race): the pull function yields a few times and returns.
func TestC20Free(t *testing.T) {
	if *flagReplay != "" {
		t.Skip()
	}
	st := NewStats("C20", "free", "free-running callers (4-8 goroutines x 1-4 requests over 2 images) against a pull function that yields and returns; built with -race; oracle = no data race, every request returns exactly once with the content of a pull of its image, at most one pull per image in flight at any time, pulls <= requests; non-trivial = more requests than pulls (de-duplication happened)")
	rapid.Check(t, func(rt *rapid.T) {
		ng := rapid.IntRange(4, 8).Draw(rt, "goroutines")
		per := rapid.IntRange(1, 4).Draw(rt, "per")
		yields := rapid.IntRange(0, 20).Draw(rt, "yields")
		rm := &RequestManager{inFlight: make(map[string][]chan<- response)}
		var active [2]int32
		var maxActive, pulls int32
		rm.pullImage = func(_ context.Context, _ client.Client, _ types.NamespacedName, ref string, _ ...crane.Option) (*packagetypes.RawPackage, error) {
			idx := 0
			if ref == c20Image(1) {
				idx = 1
			}
			n := atomic.AddInt32(&active[idx], 1)
			for {
				m := atomic.LoadInt32(&maxActive)
				if n <= m || atomic.CompareAndSwapInt32(&maxActive, m, n) {
					break
				}
			}
			atomic.AddInt32(&pulls, 1)
			for i := 0; i < yields; i++ {
				runtime.Gosched()
			}
			atomic.AddInt32(&active[idx], -1)
			return &packagetypes.RawPackage{Files: packagetypes.Files{"a.yaml": []byte(ref)}}, nil
		}
		var wg sync.WaitGroup
		var bad atomic.Value
		for g := 0; g < ng; g++ {
			wg.Add(1)
			go func(g int) {
				defer wg.Done()
				for i := 0; i < per; i++ {
					img := c20Image((g + i) % 2)
					pkg, err := rm.Pull(context.Background(), img)
					if err != nil || pkg == nil || string(pkg.Files["a.yaml"]) != img {
						bad.Store(fmt.Sprintf("goroutine %d got %v %v for %s", g, pkg, err, img))
						return
					}
					pkg.Files["a.yaml"][0] = 'X' // private copy: must not disturb anyone
					pkg.Files["mine"] = []byte{1}
				}
			}(g)
		}
		done := make(chan struct{})
		go func() { wg.Wait(); close(done) }()
		var err error
		select {
		case <-done:
		case <-time.After(20 * time.Second):
			err = Violf("C20", "caller-without-response", "free-running callers did not all return within 20s")
		}
		if err == nil {
			if b := bad.Load(); b != nil {
				err = Violf("C20", "wrong-response", "%v", b)
			} else if atomic.LoadInt32(&maxActive) > 1 {
				err = Violf("C20", "parallel-pulls-for-one-image", "%d pulls of one image in flight at once", maxActive)
			} else if int(pulls) > ng*per {
				err = Violf("C20", "unexpected-pull-count", "%d pulls for %d requests", pulls, ng*per)
			}
		}
		c := map[string]any{"part": "free", "goroutines": ng, "per": per, "yields": yields}
		st.Case(c, int(pulls) < ng*per)
		st.Count("requests", int64(ng*per))
		st.Count("pulls", int64(pulls))
		st.Report(rt, c, err)
	})
}
