//go:build verif

package packagedeploy

import (
	"context"
	"encoding/json"
	"fmt"
	"strings"
	"testing"

	"k8s.io/apimachinery/pkg/apis/meta/v1/unstructured"
	"k8s.io/apimachinery/pkg/runtime"
	"k8s.io/apimachinery/pkg/types"
	"pgregory.net/rapid"
	"sigs.k8s.io/controller-runtime/pkg/client"
	"sigs.k8s.io/controller-runtime/pkg/client/fake"

	corev1alpha1 "package-operator.run/apis/core/v1alpha1"
	"package-operator.run/internal/adapters"
)

// Part "large" of C16: "a changed image, config or component always results in an ObjectDeployment template equal to a fresh
// render of the new spec" where the render is big. The engine scenarios use small objects (the model copies every request),
// so phases never cross the 1 MiB mark at which the default chunking strategy starts moving objects into ObjectSlices. Here
// the real deployment reconciler (as constructed for the manager, default strategy as chosen for a Package without the
// strategy annotation) writes histories of template versions whose phases are below, around and far above that mark; after
// every version the stored template, with the referenced slices read back and inlined, must be the version handed in.

type c16LargeCase struct {
	Part     string          `json:"part"`
	Cluster  bool            `json:"cluster"`
	Versions [][]c16LargePhase `json:"versions"`
}

type c16LargePhase struct {
	Name string `json:"name"`
	// Sizes: code per object: 0 small, 1 about 200 KiB, 2 about 400 KiB, 3 about 700 KiB
	Sizes []int `json:"sizes"`
}

var c16Pad = map[int]int{0: 16, 1: 200 << 10, 2: 400 << 10, 3: 700 << 10}

func c16LargeTemplate(version int, phases []c16LargePhase) corev1alpha1.ObjectSetTemplateSpec {
	var ts corev1alpha1.ObjectSetTemplateSpec
	for _, p := range phases {
		ph := corev1alpha1.ObjectSetTemplatePhase{Name: p.Name}
		for j, code := range p.Sizes {
			ph.Objects = append(ph.Objects, corev1alpha1.ObjectSetObject{Object: unstructured.Unstructured{Object: map[string]any{
				"apiVersion": "v1", "kind": "ConfigMap",
				"metadata": map[string]any{"name": fmt.Sprintf("%s-cm-%d", p.Name, j), "namespace": "ns"},
				"data":     map[string]any{"version": fmt.Sprint(version), "pad": strings.Repeat("x", c16Pad[code%4])},
			}}})
		}
		ts.Phases = append(ts.Phases, ph)
	}
	return ts
}

func objectIDs(objs []corev1alpha1.ObjectSetObject) []string {
	var out []string
	for _, o := range objs {
		d, _, _ := unstructured.NestedStringMap(o.Object.Object, "data")
		out = append(out, fmt.Sprintf("%s(v%s,%dB)", o.Object.GetName(), d["version"], len(d["pad"])))
	}
	return out
}

func runC16Large(c *c16LargeCase) (sliced bool, err error) {
	scheme := runtime.NewScheme()
	if e := corev1alpha1.AddToScheme(scheme); e != nil {
		return false, e
	}
	cl := fake.NewClientBuilder().WithScheme(scheme).Build()
	ctx := context.Background()
	var deployer *PackageDeployer
	ns := "ns"
	newDeploy, newPkg := adapters.NewObjectDeployment, adapters.NewGenericPackage
	if c.Cluster {
		deployer = NewClusterPackageDeployer(cl, scheme, nil)
		ns = ""
		newDeploy, newPkg = adapters.NewClusterObjectDeployment, adapters.NewGenericClusterPackage
	} else {
		deployer = NewPackageDeployer(cl, cl, scheme, nil)
	}
	// the strategy the deployer picks for a Package that does not ask for one
	chunker := determineChunkingStrategyForPackage(newPkg(scheme))
	for v, phases := range c.Versions {
		want := c16LargeTemplate(v, phases)
		d := newDeploy(scheme)
		d.ClientObject().SetName("pkg")
		d.ClientObject().SetNamespace(ns)
		d.ClientObject().SetUID(types.UID("dep-uid"))
		d.SetSelector(map[string]string{"package-operator.run/instance": "pkg"})
		d.SetTemplateSpec(*want.DeepCopy())
		if e := deployer.deploymentReconciler.Reconcile(ctx, d, chunker); e != nil {
			return sliced, fmt.Errorf("version %d: reconcile: %w", v, e)
		}
		var got []corev1alpha1.ObjectSetTemplatePhase
		if c.Cluster {
			stored := &corev1alpha1.ClusterObjectDeployment{}
			if e := cl.Get(ctx, client.ObjectKey{Name: "pkg"}, stored); e != nil {
				return sliced, Violf("C16", "deployment-not-written", "version %d: %v", v, e)
			}
			got = stored.Spec.Template.Spec.Phases
		} else {
			stored := &corev1alpha1.ObjectDeployment{}
			if e := cl.Get(ctx, client.ObjectKey{Name: "pkg", Namespace: ns}, stored); e != nil {
				return sliced, Violf("C16", "deployment-not-written", "version %d: %v", v, e)
			}
			got = stored.Spec.Template.Spec.Phases
		}
		if len(got) != len(want.Phases) {
			return sliced, Violf("C16", "deployment-template-differs-from-fresh-render", "version %d: stored template has %d phases, the render %d", v, len(got), len(want.Phases))
		}
		for i, ph := range got {
			objs := append([]corev1alpha1.ObjectSetObject{}, ph.Objects...)
			for _, sn := range ph.Slices {
				sliced = true
				if c.Cluster {
					sl := &corev1alpha1.ClusterObjectSlice{}
					if e := cl.Get(ctx, client.ObjectKey{Name: sn}, sl); e != nil {
						return sliced, Violf("C16", "referenced-slice-missing", "version %d phase %s: slice %s: %v", v, ph.Name, sn, e)
					}
					objs = append(objs, sl.Objects...)
				} else {
					sl := &corev1alpha1.ObjectSlice{}
					if e := cl.Get(ctx, client.ObjectKey{Name: sn, Namespace: ns}, sl); e != nil {
						return sliced, Violf("C16", "referenced-slice-missing", "version %d phase %s: slice %s: %v", v, ph.Name, sn, e)
					}
					objs = append(objs, sl.Objects...)
				}
			}
			wb, _ := json.Marshal(want.Phases[i].Objects)
			gb, _ := json.Marshal(objs)
			if len(objs) == 0 && len(want.Phases[i].Objects) == 0 {
				wb, gb = nil, nil // nil and empty lists are the same template
			}
			if ph.Name != want.Phases[i].Name || string(wb) != string(gb) {
				return sliced, Violf("C16", "deployment-template-differs-from-fresh-render",
					"version %d, phase %s (%d slices): the stored template with its slices inlined has objects %v, the render of this version has %v",
					v, want.Phases[i].Name, len(ph.Slices), objectIDs(objs), objectIDs(want.Phases[i].Objects))
			}
		}
	}
	return sliced, nil
}

func TestC16Large(t *testing.T) {
	st := NewStats("C16", "large", "case = scope (Package / ClusterPackage deployer) x history of 1-4 template versions with 1-3 phases of 0-5 ConfigMaps sized 16 B / 200 KiB / 400 KiB / 700 KiB each (phases below, around and well above the 1 MiB chunk limit, changing between versions), written by the real DeploymentReconciler with the default chunking strategy against controller-runtime's fake client; oracle = after every version the stored ObjectDeployment template, with the referenced ObjectSlices read back and inlined in order, equals the version handed in (same phases, same objects, same order, same content); non-trivial = at least one phase was moved into slices")
	CheckOrReplay(t, st, func(data []byte) (any, error) {
		var c c16LargeCase
		if err := json.Unmarshal(data, &c); err != nil {
			return nil, err
		}
		_, err := runC16Large(&c)
		return &c, err
	}, func(rt *rapid.T) {
		c := &c16LargeCase{Part: "large", Cluster: rapid.Bool().Draw(rt, "cluster")}
		nph := rapid.IntRange(1, 3).Draw(rt, "nphases")
		for v := rapid.IntRange(1, 4).Draw(rt, "nversions"); v > 0; v-- {
			var phases []c16LargePhase
			for p := 0; p < nph; p++ {
				phases = append(phases, c16LargePhase{Name: fmt.Sprintf("p%d", p), Sizes: rapid.SliceOfN(rapid.IntRange(0, 3), 0, 5).Draw(rt, "sizes")})
			}
			c.Versions = append(c.Versions, phases)
		}
		sliced, err := runC16Large(c)
		var labels []string
		if sliced {
			labels = append(labels, "phase-moved-into-slices")
		}
		if len(c.Versions) > 1 {
			labels = append(labels, "several-versions")
		}
		st.Case(c, sliced, labels...)
		st.Report(rt, c, err)
	})
}
