//go:build verif

package packagedeploy

import (
	"context"
	"encoding/json"
	"fmt"
	"sort"
	"testing"

	metav1 "k8s.io/apimachinery/pkg/apis/meta/v1"
	"k8s.io/apimachinery/pkg/apis/meta/v1/unstructured"
	"k8s.io/apimachinery/pkg/runtime"
	"k8s.io/apimachinery/pkg/types"
	"pgregory.net/rapid"
	"sigs.k8s.io/controller-runtime/pkg/client"
	"sigs.k8s.io/controller-runtime/pkg/client/fake"

	corev1alpha1 "package-operator.run/apis/core/v1alpha1"
	"package-operator.run/internal/adapters"
)

// "Slice garbage collection never deletes a slice still referenced by the deployment template or by any existing ObjectSet",
// for both scopes, through the deployers as the manager constructs them (NewPackageDeployer / NewClusterPackageDeployer):
// generated update histories of a chunked deployment template, revisions (ObjectSets / ClusterObjectSets) created from the
// template in between, some of them deleted again.

type c14GCCase struct {
	Part    string    `json:"part"`
	Cluster bool      `json:"cluster"`
	Steps   []c14GCOp `json:"steps"`
}

type c14GCOp struct {
	Op      string `json:"op"`      // deploy | revision | dropRevision
	Objects []int  `json:"objects"` // deploy: content variants of the objects of the single phase
	Which   int    `json:"which"`   // dropRevision: which existing revision
}

func runC14GC(c *c14GCCase) (gcDeletes int, err error) {
	scheme := runtime.NewScheme()
	if e := corev1alpha1.AddToScheme(scheme); e != nil {
		return 0, e
	}
	cl := fake.NewClientBuilder().WithScheme(scheme).Build()
	ctx := context.Background()
	var deployer *PackageDeployer
	ns := "ns"
	if c.Cluster {
		deployer = NewClusterPackageDeployer(cl, scheme, nil)
		ns = ""
	} else {
		deployer = NewPackageDeployer(cl, cl, scheme, nil)
	}
	newDeploy := adapters.NewObjectDeployment
	if c.Cluster {
		newDeploy = adapters.NewClusterObjectDeployment
	}
	sel := map[string]string{"package-operator.run/instance": "pkg"}
	revs := 0
	existingSlices := func() map[string]bool {
		out := map[string]bool{}
		if c.Cluster {
			l := &corev1alpha1.ClusterObjectSliceList{}
			_ = cl.List(ctx, l)
			for _, s := range l.Items {
				out[s.Name] = true
			}
		} else {
			l := &corev1alpha1.ObjectSliceList{}
			_ = cl.List(ctx, l, client.InNamespace(ns))
			for _, s := range l.Items {
				out[s.Name] = true
			}
		}
		return out
	}
	referenced := func() map[string]string {
		out := map[string]string{}
		add := func(who string, phases []corev1alpha1.ObjectSetTemplatePhase) {
			for _, p := range phases {
				for _, s := range p.Slices {
					out[s] = who
				}
			}
		}
		if c.Cluster {
			d := &corev1alpha1.ClusterObjectDeployment{}
			if cl.Get(ctx, client.ObjectKey{Name: "pkg"}, d) == nil {
				add("the deployment template", d.Spec.Template.Spec.Phases)
			}
			l := &corev1alpha1.ClusterObjectSetList{}
			_ = cl.List(ctx, l)
			for _, s := range l.Items {
				add("ClusterObjectSet "+s.Name, s.Spec.Phases)
			}
		} else {
			d := &corev1alpha1.ObjectDeployment{}
			if cl.Get(ctx, client.ObjectKey{Name: "pkg", Namespace: ns}, d) == nil {
				add("the deployment template", d.Spec.Template.Spec.Phases)
			}
			l := &corev1alpha1.ObjectSetList{}
			_ = cl.List(ctx, l, client.InNamespace(ns))
			for _, s := range l.Items {
				add("ObjectSet "+s.Name, s.Spec.Phases)
			}
		}
		return out
	}
	for i, op := range c.Steps {
		switch op.Op {
		case "deploy":
			d := newDeploy(scheme)
			d.ClientObject().SetName("pkg")
			d.ClientObject().SetNamespace(ns)
			d.ClientObject().SetUID(types.UID("dep-uid"))
			d.SetSelector(sel)
			var objs []corev1alpha1.ObjectSetObject
			for j, v := range op.Objects {
				objs = append(objs, corev1alpha1.ObjectSetObject{Object: unstructured.Unstructured{Object: map[string]any{
					"apiVersion": "v1", "kind": "ConfigMap",
					"metadata": map[string]any{"name": fmt.Sprintf("cm-%d", j), "namespace": "ns"},
					"data":     map[string]any{"v": fmt.Sprint(v)},
				}}})
			}
			d.SetTemplateSpec(corev1alpha1.ObjectSetTemplateSpec{Phases: []corev1alpha1.ObjectSetTemplatePhase{{Name: "p", Objects: objs}}})
			before := existingSlices()
			if e := deployer.deploymentReconciler.Reconcile(ctx, d, &EachObjectChunker{}); e != nil {
				return gcDeletes, fmt.Errorf("step %d: reconcile: %w", i, e)
			}
			after := existingSlices()
			for n := range before {
				if !after[n] {
					gcDeletes++
				}
			}
		case "revision":
			// what the ObjectDeployment controller does: an ObjectSet carrying the current template
			revs++
			name := fmt.Sprintf("pkg-rev%d", revs)
			if c.Cluster {
				d := &corev1alpha1.ClusterObjectDeployment{}
				if cl.Get(ctx, client.ObjectKey{Name: "pkg"}, d) != nil {
					continue
				}
				os := &corev1alpha1.ClusterObjectSet{ObjectMeta: metav1.ObjectMeta{Name: name, Labels: sel}}
				os.Spec.ObjectSetTemplateSpec = *d.Spec.Template.Spec.DeepCopy()
				_ = cl.Create(ctx, os)
			} else {
				d := &corev1alpha1.ObjectDeployment{}
				if cl.Get(ctx, client.ObjectKey{Name: "pkg", Namespace: ns}, d) != nil {
					continue
				}
				os := &corev1alpha1.ObjectSet{ObjectMeta: metav1.ObjectMeta{Name: name, Namespace: ns, Labels: sel}}
				os.Spec.ObjectSetTemplateSpec = *d.Spec.Template.Spec.DeepCopy()
				_ = cl.Create(ctx, os)
			}
		case "dropRevision":
			if c.Cluster {
				l := &corev1alpha1.ClusterObjectSetList{}
				_ = cl.List(ctx, l)
				if len(l.Items) > 0 {
					sort.Slice(l.Items, func(a, b int) bool { return l.Items[a].Name < l.Items[b].Name })
					_ = cl.Delete(ctx, &l.Items[op.Which%len(l.Items)])
				}
			} else {
				l := &corev1alpha1.ObjectSetList{}
				_ = cl.List(ctx, l, client.InNamespace(ns))
				if len(l.Items) > 0 {
					sort.Slice(l.Items, func(a, b int) bool { return l.Items[a].Name < l.Items[b].Name })
					_ = cl.Delete(ctx, &l.Items[op.Which%len(l.Items)])
				}
			}
		}
		have := existingSlices()
		for s, who := range referenced() {
			if !have[s] {
				return gcDeletes, Violf("C14", "referenced-slice-deleted", "after step %d (%s): slice %s is referenced by %s but does not exist any more (cluster scope=%v)", i, op.Op, s, who, c.Cluster)
			}
		}
	}
	return gcDeletes, nil
}

func TestC14GC(t *testing.T) {
	st := NewStats("C14", "gc", "case = scope (Package / ClusterPackage deployer as constructed for the manager) x history of 2-8 steps: deploy a template version (1-4 objects with generated content variants, EachObject chunking), create a revision (ObjectSet / ClusterObjectSet) from the current template, delete an existing revision; the real DeploymentReconciler (chunking, slice reconciliation, slice GC) runs against controller-runtime's fake client; oracle = after every step every slice referenced by the deployment template or by an existing revision exists; non-trivial = the garbage collection deleted at least one slice")
	CheckOrReplay(t, st, func(data []byte) (any, error) {
		var c c14GCCase
		if err := json.Unmarshal(data, &c); err != nil {
			return nil, err
		}
		_, err := runC14GC(&c)
		return &c, err
	}, func(rt *rapid.T) {
		c := &c14GCCase{Part: "gc", Cluster: rapid.Bool().Draw(rt, "cluster")}
		c.Steps = append(c.Steps, c14GCOp{Op: "deploy", Objects: rapid.SliceOfN(rapid.IntRange(0, 3), 1, 4).Draw(rt, "objs0")})
		for i := rapid.IntRange(1, 7).Draw(rt, "nsteps"); i > 0; i-- {
			switch rapid.IntRange(0, 5).Draw(rt, "op") {
			case 0, 1, 2:
				c.Steps = append(c.Steps, c14GCOp{Op: "deploy", Objects: rapid.SliceOfN(rapid.IntRange(0, 3), 1, 4).Draw(rt, "objs")})
			case 3, 4:
				c.Steps = append(c.Steps, c14GCOp{Op: "revision"})
			default:
				c.Steps = append(c.Steps, c14GCOp{Op: "dropRevision", Which: rapid.IntRange(0, 3).Draw(rt, "which")})
			}
		}
		n, err := runC14GC(c)
		st.Case(c, n > 0)
		st.Report(rt, c, err)
	})
}
