//go:build verif

package packagedeploy

import (
	"context"
	"encoding/json"
	"strconv"
	"sync"
	"testing"

	"k8s.io/apimachinery/pkg/api/equality"
	metav1 "k8s.io/apimachinery/pkg/apis/meta/v1"
	"k8s.io/apimachinery/pkg/apis/meta/v1/unstructured"
	"k8s.io/apimachinery/pkg/runtime"
	"k8s.io/apimachinery/pkg/types"
	"pgregory.net/rapid"
	"sigs.k8s.io/controller-runtime/pkg/client"
	"sigs.k8s.io/controller-runtime/pkg/client/fake"

	corev1alpha1 "package-operator.run/apis/core/v1alpha1"
	"package-operator.run/internal/adapters"
	"package-operator.run/internal/utils"
)

// "Slice names are determined by content and a colliding name is never reused for different content": the name is an FNV-32
// hash, so two different contents can collide. Genuine collisions are found by search (birthday bound: a few hundred
// thousand candidates for a 32-bit hash) once per process, then the real slice reconciler is driven with them.

type c14ColCase struct {
	Part       string `json:"part"`
	Pair       int    `json:"pair"`       // which colliding pair
	Swap       bool   `json:"swap"`       // second content of the pair first
	Foreign    bool   `json:"foreign"`    // the existing slice is controlled by somebody else
	NoCollide  bool   `json:"noCollide"`  // control case: two contents with different hashes
	RepeatThen bool   `json:"repeatThen"` // reconcile the first content again at the end
}

func c14ColContent(i int) []corev1alpha1.ObjectSetObject {
	return []corev1alpha1.ObjectSetObject{{Object: unstructured.Unstructured{Object: map[string]any{
		"apiVersion": "v1", "kind": "ConfigMap",
		"metadata": map[string]any{"name": "cm"},
		"data":     map[string]any{"v": strconv.Itoa(i)},
	}}}}
}

var (
	c14PairsOnce sync.Once
	c14Pairs     [][2]int
)

func c14FindPairs() [][2]int {
	c14PairsOnce.Do(func() {
		seen := map[string]int{}
		cc := int32(0)
		for i := 0; i < 1500000 && len(c14Pairs) < 3; i++ {
			h := utils.ComputeFNV32Hash(c14ColContent(i), &cc)
			if j, ok := seen[h]; ok {
				c14Pairs = append(c14Pairs, [2]int{j, i})
			} else {
				seen[h] = i
			}
		}
	})
	return c14Pairs
}

func runC14Col(c *c14ColCase) (collided bool, err error) {
	pairs := c14FindPairs()
	if len(pairs) == 0 {
		return false, Violf("C14", "harness-no-collision-found", "no FNV-32 collision among the candidate contents: the search space needs to grow")
	}
	p := pairs[c.Pair%len(pairs)]
	a, b := p[0], p[1]
	if c.NoCollide {
		b = a + 1
	}
	if c.Swap {
		a, b = b, a
	}
	scheme := runtime.NewScheme()
	if e := corev1alpha1.AddToScheme(scheme); e != nil {
		return false, e
	}
	cl := fake.NewClientBuilder().WithScheme(scheme).Build()
	ctx := context.Background()
	r := newDeploymentReconciler(scheme, cl, adapters.NewObjectDeployment, adapters.NewObjectSlice, adapters.NewObjectSliceList, newGenericObjectSetList)
	deploy := adapters.NewObjectDeployment(scheme)
	deploy.ClientObject().SetName("dep")
	deploy.ClientObject().SetNamespace("ns")
	deploy.ClientObject().SetUID(types.UID("dep-uid"))
	rec := func(i int) (string, error) {
		sl := adapters.NewObjectSlice(scheme)
		sl.ClientObject().SetNamespace("ns")
		sl.SetObjects(c14ColContent(i))
		if e := r.reconcileSlice(ctx, deploy, sl); e != nil {
			return "", e
		}
		return sl.ClientObject().GetName(), nil
	}
	stored := func(name string) ([]corev1alpha1.ObjectSetObject, error) {
		sl := &corev1alpha1.ObjectSlice{}
		if e := cl.Get(ctx, client.ObjectKey{Namespace: "ns", Name: name}, sl); e != nil {
			return nil, e
		}
		return sl.Objects, nil
	}
	n1, e := rec(a)
	if e != nil {
		return false, e
	}
	if c.Foreign {
		sl := &corev1alpha1.ObjectSlice{}
		if e := cl.Get(ctx, client.ObjectKey{Namespace: "ns", Name: n1}, sl); e != nil {
			return false, e
		}
		tr := true
		sl.OwnerReferences = []metav1.OwnerReference{{APIVersion: "v1", Kind: "ConfigMap", Name: "someone", UID: "other", Controller: &tr}}
		if e := cl.Update(ctx, sl); e != nil {
			return false, e
		}
	}
	n2, e := rec(b)
	if e != nil {
		return false, e
	}
	cc := int32(0)
	collided = utils.ComputeFNV32Hash(c14ColContent(a), &cc) == utils.ComputeFNV32Hash(c14ColContent(b), &cc)
	check := func(name string, i int, what string) error {
		got, e := stored(name)
		if e != nil {
			return Violf("C14", "slice-missing", "%s: slice %s reconciled for content %d does not exist: %v", what, name, i, e)
		}
		if !equality.Semantic.DeepEqual(got, c14ColContent(i)) {
			gb, _ := json.Marshal(got)
			return Violf("C14", "colliding-slice-name-reused-for-different-content",
				"%s: the deployment template would reference slice %s for content v=%d, but that slice holds %s (hash collision=%v, existing slice controlled by the deployment=%v)", what, name, i, gb, collided, !c.Foreign)
		}
		return nil
	}
	if err := check(n2, b, "second content"); err != nil {
		return collided, err
	}
	if !c.Foreign {
		if err := check(n1, a, "first content"); err != nil {
			return collided, err
		}
	}
	if n1 == n2 {
		return collided, Violf("C14", "colliding-slice-name-reused-for-different-content", "two different contents (v=%d, v=%d) were both given slice name %s", a, b, n1)
	}
	if c.RepeatThen && !c.Foreign {
		n3, e := rec(a)
		if e != nil {
			return collided, e
		}
		if n3 != n1 {
			return collided, Violf("C14", "slice-name-not-content-determined", "content v=%d got slice name %s first and %s when reconciled again", a, n1, n3)
		}
	}
	return collided, nil
}

func TestC14Collision(t *testing.T) {
	st := NewStats("C14", "collision", "genuine FNV-32 collisions between single-object slice contents are found by search (candidates v=0,1,2,... until three pairs collide); case = colliding pair x order x whether the slice already existing under the shared name is controlled by the deployment or by somebody else x non-colliding control pairs; the real DeploymentReconciler.reconcileSlice is run for the first and then the second content against controller-runtime's fake client; oracle = the slice name handed back for each content holds exactly that content, the two names differ, reconciling the first content again yields its first name; non-trivial = the two contents really collide")
	CheckOrReplay(t, st, func(data []byte) (any, error) {
		var c c14ColCase
		if err := json.Unmarshal(data, &c); err != nil {
			return nil, err
		}
		_, err := runC14Col(&c)
		return &c, err
	}, func(rt *rapid.T) {
		c := &c14ColCase{Part: "collision", Pair: rapid.IntRange(0, 2).Draw(rt, "pair"), Swap: rapid.Bool().Draw(rt, "swap"),
			Foreign: rapid.IntRange(0, 3).Draw(rt, "foreign") == 0, NoCollide: rapid.IntRange(0, 4).Draw(rt, "nocollide") == 0, RepeatThen: rapid.Bool().Draw(rt, "repeat")}
		col, err := runC14Col(c)
		st.Case(c, col)
		st.Report(rt, c, err)
	})
}
