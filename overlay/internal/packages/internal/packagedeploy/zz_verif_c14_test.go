//go:build verif

package packagedeploy

import (
	"context"
	"encoding/json"
	"fmt"
	"reflect"
	"strings"
	"testing"

	"k8s.io/apimachinery/pkg/apis/meta/v1/unstructured"
	"pgregory.net/rapid"

	corev1alpha1 "package-operator.run/apis/core/v1alpha1"
)

type c14Case struct {
	Part     string `json:"part"`
	Strategy string `json:"strategy"` // NoOp | EachObject | BinpackNextFit
	// Sizes are the marshalled sizes of the objects relative to the chunk limit: value v means
	// v>=0: tiny object of about v bytes of payload; v<0: limit+v+? see sizeOf
	Sizes []int `json:"sizes"`
}

const c14Limit = binpackNextFitStrategyChunkLimit

func c14Object(i int, target int) corev1alpha1.ObjectSetObject {
	u := unstructured.Unstructured{Object: map[string]any{
		"apiVersion": "v1", "kind": "ConfigMap",
		"metadata": map[string]any{"name": fmt.Sprintf("cm-%d", i)},
		"data":     map[string]any{"blob": ""},
	}}
	// calibrate with the same size measure the chunker uses
	pad := target - marshalledSize(corev1alpha1.ObjectSetObject{Object: u})
	if pad < 0 {
		pad = 0
	}
	u.Object["data"].(map[string]any)["blob"] = strings.Repeat("x", pad)
	return corev1alpha1.ObjectSetObject{Object: u}
}

func marshalledSize(o corev1alpha1.ObjectSetObject) int {
	b, _ := json.Marshal(o.Object)
	return len(b)
}

// target sizes: small absolute values for tiny objects, or offsets around fractions of the limit
func c14Target(code int) int {
	switch {
	case code >= 0 && code < 1000:
		return 120 + code
	case code >= 1000 && code < 2000: // around the full limit
		return c14Limit + (code - 1500)
	case code >= 2000 && code < 3000: // around half the limit
		return c14Limit/2 + (code - 2500)
	default: // clearly above the limit
		return c14Limit + 4096 + (code - 3000)
	}
}

func runC14(c *c14Case) (chunks int, err error) {
	phase := &corev1alpha1.ObjectSetTemplatePhase{Name: "p"}
	for i, code := range c.Sizes {
		phase.Objects = append(phase.Objects, c14Object(i, c14Target(code)))
	}
	original := append([]corev1alpha1.ObjectSetObject{}, phase.Objects...)
	var chunker objectChunker
	switch c.Strategy {
	case "NoOp":
		chunker = &NoOpChunker{}
	case "EachObject":
		chunker = &EachObjectChunker{}
	default:
		chunker = &BinpackNextFitChunker{}
	}
	out, cerr := chunker.Chunk(context.Background(), phase)
	if cerr != nil {
		return 0, Violf("C14", "chunker-error", "chunker %s failed: %v", c.Strategy, cerr)
	}
	if len(phase.Objects) != len(original) || (len(original) > 0 && !reflect.DeepEqual(phase.Objects, original)) {
		return 0, Violf("C14", "chunker-mutated-phase", "chunker %s changed the phase's object list", c.Strategy)
	}
	if len(out) == 0 {
		// bypass: objects stay inline. Only legal when everything fits into one chunk (or strategy NoOp / no objects)
		if c.Strategy == "EachObject" && len(original) > 0 {
			return 0, Violf("C14", "chunks-lost", "EachObject produced no chunk for %d objects", len(original))
		}
		if c.Strategy == "BinpackNextFit" {
			total := 0
			for _, o := range original {
				total += marshalledSize(o)
			}
			if total > c14Limit && len(original) > 1 {
				return 0, Violf("C14", "oversized-phase-left-inline", "BinpackNextFit left %d objects (%d bytes > limit %d) inline", len(original), total, c14Limit)
			}
		}
		return 0, nil
	}
	var concat []corev1alpha1.ObjectSetObject
	for ci, ch := range out {
		if len(ch) == 0 {
			return len(out), Violf("C14", "empty-chunk", "chunk %d of %d is empty", ci, len(out))
		}
		concat = append(concat, ch...)
		size := 0
		for _, o := range ch {
			size += marshalledSize(o)
		}
		if len(ch) > 1 && size > c14Limit {
			return len(out), Violf("C14", "chunk-over-limit", "chunk %d holds %d objects with %d bytes > limit %d (sizes %v)", ci, len(ch), size, c14Limit, c.Sizes)
		}
		if c.Strategy == "EachObject" && len(ch) != 1 {
			return len(out), Violf("C14", "eachobject-chunk-size", "EachObject chunk %d has %d objects", ci, len(ch))
		}
	}
	if !reflect.DeepEqual(concat, original) {
		var got, want []string
		for _, o := range concat {
			got = append(got, o.Object.GetName())
		}
		for _, o := range original {
			want = append(want, o.Object.GetName())
		}
		return len(out), Violf("C14", "concatenation-differs", "concatenating the %d chunks gives %v, the phase has %v", len(out), got, want)
	}
	return len(out), nil
}

func TestC14Chunking(t *testing.T) {
	st := NewStats("C14", "chunking", "case = phase of 0-6 ConfigMaps whose marshalled sizes are drawn around the 1 MiB chunk limit (limit-3..limit+3, half the limit +-3, tiny, clearly above) x chunking strategy (NoOp, EachObject, BinpackNextFit) on the real chunkers; oracle = in-order concatenation of the chunks equals the phase's object list, no empty chunk, every multi-object chunk <= limit, a bypass (no chunks) only when the objects fit, phase not mutated; non-trivial = >=2 chunks produced")
	CheckOrReplay(t, st, func(data []byte) (any, error) {
		var c c14Case
		if err := json.Unmarshal(data, &c); err != nil {
			return nil, err
		}
		_, err := runC14(&c)
		return &c, err
	}, func(rt *rapid.T) {
		c := &c14Case{Part: "chunking", Strategy: rapid.SampledFrom([]string{"NoOp", "EachObject", "BinpackNextFit", "BinpackNextFit", "BinpackNextFit"}).Draw(rt, "strategy")}
		n := rapid.IntRange(0, 6).Draw(rt, "n")
		for i := 0; i < n; i++ {
			switch rapid.IntRange(0, 5).Draw(rt, "sizeclass") {
			case 0, 1:
				c.Sizes = append(c.Sizes, rapid.IntRange(0, 200).Draw(rt, "tiny"))
			case 2:
				c.Sizes = append(c.Sizes, 1500+rapid.IntRange(-3, 3).Draw(rt, "aroundlimit"))
			case 3, 4:
				c.Sizes = append(c.Sizes, 2500+rapid.IntRange(-3, 3).Draw(rt, "aroundhalf"))
			default:
				c.Sizes = append(c.Sizes, 3000+rapid.IntRange(0, 10).Draw(rt, "above"))
			}
		}
		chunks, err := runC14(c)
		st.Case(c, chunks >= 2, fmt.Sprintf("chunks=%d", min(chunks, 4)), "strategy="+c.Strategy)
		st.Report(rt, c, err)
	})
}
