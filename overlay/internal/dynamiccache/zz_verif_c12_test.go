//go:build verif

package dynamiccache

import (
	"context"
	"encoding/json"
	"errors"
	"fmt"
	"os"
	"sort"
	"sync"
	"testing"
	"time"

	corev1 "k8s.io/api/core/v1"
	"k8s.io/apimachinery/pkg/apis/meta/v1/unstructured"
	"k8s.io/apimachinery/pkg/runtime"
	"k8s.io/apimachinery/pkg/runtime/schema"
	"k8s.io/apimachinery/pkg/types"
	"k8s.io/client-go/tools/cache"
	"k8s.io/client-go/util/workqueue"
	"pgregory.net/rapid"
	"sigs.k8s.io/controller-runtime/pkg/client"
	"sigs.k8s.io/controller-runtime/pkg/event"
	"sigs.k8s.io/controller-runtime/pkg/handler"
	"sigs.k8s.io/controller-runtime/pkg/reconcile"
)

// ---- scripted informer map ---------------------------------------------------

type fakeInformer struct {
	cache.SharedIndexInformer
	mu       sync.Mutex
	gvk      schema.GroupVersionKind
	id       int
	handlers []cache.ResourceEventHandler
	stopped  bool
	failReg  *bool
}

func (f *fakeInformer) AddEventHandler(h cache.ResourceEventHandler) (cache.ResourceEventHandlerRegistration, error) {
	f.mu.Lock()
	defer f.mu.Unlock()
	if f.failReg != nil && *f.failReg {
		*f.failReg = false
		return nil, errors.New("scripted: handler registration failed")
	}
	f.handlers = append(f.handlers, h)
	return nil, nil
}
func (f *fakeInformer) HasSynced() bool { return true }

type fakeReader struct {
	gvk   schema.GroupVersionKind
	calls *int
	mu    *sync.Mutex
}

func (r *fakeReader) Get(context.Context, client.ObjectKey, client.Object, ...client.GetOption) error {
	r.mu.Lock()
	*r.calls++
	r.mu.Unlock()
	return nil
}
func (r *fakeReader) List(context.Context, client.ObjectList, ...client.ListOption) error {
	r.mu.Lock()
	*r.calls++
	r.mu.Unlock()
	return nil
}

type fakeInformerMap struct {
	mu           sync.Mutex
	live         map[schema.GroupVersionKind]*fakeInformer
	all          []*fakeInformer
	getCalls     int
	creates      int
	deletes      int
	readerCalls  int
	rmu          sync.Mutex
	// parkGet, when set, is called at the entry of Get (outside the map's own mutex): the harness uses it
	// to hold one caller at the informer-map boundary while another operation runs.
	parkGet      func(gvk schema.GroupVersionKind)
	failNextGet  bool
	failNextReg  bool
	implicitMake int // informers created by a Get that did not come from Watch (detected by the harness)
}

func newFakeInformerMap() *fakeInformerMap {
	return &fakeInformerMap{live: map[schema.GroupVersionKind]*fakeInformer{}}
}

func (m *fakeInformerMap) Get(_ context.Context, gvk schema.GroupVersionKind, _ runtime.Object) (cache.SharedIndexInformer, client.Reader, error) {
	m.mu.Lock()
	park := m.parkGet
	m.mu.Unlock()
	if park != nil {
		park(gvk)
	}
	m.mu.Lock()
	defer m.mu.Unlock()
	m.getCalls++
	if inf, ok := m.live[gvk]; ok {
		return inf, &fakeReader{gvk: gvk, calls: &m.readerCalls, mu: &m.rmu}, nil
	}
	if m.failNextGet {
		m.failNextGet = false
		return nil, nil, errors.New("scripted: informer start failed")
	}
	inf := &fakeInformer{gvk: gvk, id: len(m.all), failReg: &m.failNextReg}
	m.live[gvk] = inf
	m.all = append(m.all, inf)
	m.creates++
	return inf, &fakeReader{gvk: gvk, calls: &m.readerCalls, mu: &m.rmu}, nil
}

func (m *fakeInformerMap) Delete(_ context.Context, gvk schema.GroupVersionKind) error {
	m.mu.Lock()
	defer m.mu.Unlock()
	if inf, ok := m.live[gvk]; ok {
		inf.stopped = true
		delete(m.live, gvk)
		m.deletes++
	}
	return nil
}

func (m *fakeInformerMap) liveKinds() []string {
	m.mu.Lock()
	defer m.mu.Unlock()
	var out []string
	for g := range m.live {
		out = append(out, g.Kind)
	}
	sort.Strings(out)
	return out
}

// ---- recording queue + handler ------------------------------------------------

type recQueue struct {
	workqueue.TypedRateLimitingInterface[reconcile.Request]
	mu    sync.Mutex
	items []reconcile.Request
}

func (q *recQueue) Add(r reconcile.Request) {
	q.mu.Lock()
	q.items = append(q.items, r)
	q.mu.Unlock()
}

type constHandler struct{ name string }

func (h constHandler) Create(_ context.Context, _ event.CreateEvent, q workqueue.TypedRateLimitingInterface[reconcile.Request]) {
	q.Add(reconcile.Request{NamespacedName: types.NamespacedName{Name: h.name}})
}
func (h constHandler) Update(context.Context, event.UpdateEvent, workqueue.TypedRateLimitingInterface[reconcile.Request]) {
}
func (h constHandler) Delete(context.Context, event.DeleteEvent, workqueue.TypedRateLimitingInterface[reconcile.Request]) {
}
func (h constHandler) Generic(context.Context, event.GenericEvent, workqueue.TypedRateLimitingInterface[reconcile.Request]) {
}

var _ handler.EventHandler = constHandler{}

// ---- scenario -------------------------------------------------------------------

type c12Op struct {
	Op    string `json:"op"` // watch free get list owners failget failreg
	Owner int    `json:"owner,omitempty"`
	Kind  int    `json:"kind,omitempty"`
}

type c12Case struct {
	Part     string  `json:"part"`
	Handlers int     `json:"handlers"`
	Ops      []c12Op `json:"ops"`
}

var c12Kinds = []schema.GroupVersionKind{
	{Version: "v1", Kind: "ConfigMap"},
	{Version: "v1", Kind: "Secret"},
	{Group: "verif.example", Version: "v1", Kind: "Widget"},
}

func c12Owner(i int) client.Object {
	o := &corev1.ConfigMap{}
	o.Name = fmt.Sprintf("owner-%d", i)
	o.Namespace = "ns"
	o.UID = types.UID(fmt.Sprintf("uid-%d", i))
	return o
}

func c12Obj(k int) *unstructured.Unstructured {
	u := &unstructured.Unstructured{}
	u.SetGroupVersionKind(c12Kinds[k])
	return u
}

type c12World struct {
	c      *Cache
	m      *fakeInformerMap
	queues []*recQueue
	// model: kind -> owners that have a successful Watch and were not freed since
	model map[int]map[int]bool
	// pending: kind had a failed Watch since its last successful (re)start: until the next
	// successful Watch the statement makes no claim about its informer
	pending map[int]bool
}

func newC12World(handlers int) *c12World {
	scheme := runtime.NewScheme()
	_ = corev1.AddToScheme(scheme)
	w := &c12World{m: newFakeInformerMap(), model: map[int]map[int]bool{}, pending: map[int]bool{}}
	w.c = &Cache{
		scheme:             scheme,
		informerReferences: map[schema.GroupVersionKind]map[OwnerReference]struct{}{},
		cacheSource:        &cacheSource{},
		informerMap:        w.m,
	}
	for i := 0; i < handlers; i++ {
		q := &recQueue{}
		w.queues = append(w.queues, q)
		src := w.c.Source(constHandler{name: fmt.Sprintf("h%d", i)})
		if err := src.Start(context.Background(), q); err != nil {
			panic(err)
		}
	}
	_ = w.c.Start(context.Background())
	return w
}

func (w *c12World) check(step int, op c12Op) error {
	// (1) informers vs model, for kinds without a pending failed start
	live := map[string]bool{}
	for _, k := range w.m.liveKinds() {
		live[k] = true
	}
	for ki, gvk := range c12Kinds {
		if w.pending[ki] {
			continue
		}
		want := len(w.model[ki]) > 0
		if live[gvk.Kind] != want {
			key := "informer-running-without-owner"
			if want {
				key = "no-informer-for-watched-kind"
			}
			return Violf("C12", key, "after step %d (%+v): kind %s informer running=%v, owners in model=%v", step, op, gvk.Kind, live[gvk.Kind], keysOf(w.model[ki]))
		}
	}
	// (2) every informer the map created and that is live has all registered handlers attached
	w.m.mu.Lock()
	defer w.m.mu.Unlock()
	for gvk, inf := range w.m.live {
		ki := kindIndex(gvk)
		if w.pending[ki] {
			continue
		}
		if len(inf.handlers) != len(w.queues) {
			return Violf("C12", "informer-without-handlers", "after step %d (%+v): informer #%d for %s has %d of %d registered handlers attached", step, op, inf.id, gvk.Kind, len(inf.handlers), len(w.queues))
		}
		// deliver an event through the informer: every handler's queue must receive it
		before := make([]int, len(w.queues))
		for i, q := range w.queues {
			before[i] = len(q.items)
		}
		obj := c12Obj(ki)
		obj.SetName("evt")
		for _, h := range inf.handlers {
			h.OnAdd(obj, false)
		}
		for i, q := range w.queues {
			if len(q.items) != before[i]+1 {
				return Violf("C12", "event-not-delivered", "after step %d: an event of kind %s reached handler %d's queue %d times", step, gvk.Kind, i, len(q.items)-before[i])
			}
		}
	}
	return nil
}

func kindIndex(gvk schema.GroupVersionKind) int {
	for i, k := range c12Kinds {
		if k == gvk {
			return i
		}
	}
	return -1
}

func keysOf(m map[int]bool) []int {
	var out []int
	for k := range m {
		out = append(out, k)
	}
	sort.Ints(out)
	return out
}

func runC12(c *c12Case) (labels map[string]bool, err error) {
	labels = map[string]bool{}
	ctx := context.Background()
	w := newC12World(c.Handlers)
	for i, op := range c.Ops {
		k := op.Kind % len(c12Kinds)
		switch op.Op {
		case "failget":
			w.m.failNextGet = true
		case "failreg":
			w.m.failNextReg = true
		case "watch":
			createsBefore := w.m.creates
			hadOwner := w.model[k][op.Owner]
			otherOwner := len(w.model[k]) > 0
			werr := w.c.Watch(ctx, c12Owner(op.Owner), c12Obj(k))
			if werr != nil {
				labels["watch-failed"] = true
				w.pending[k] = true
				// the failed request does not count as a watch of this owner
				continue
			}
			if w.pending[k] {
				labels["retry-after-failure"] = true
			}
			delete(w.pending, k)
			if w.model[k] == nil {
				w.model[k] = map[int]bool{}
			}
			if hadOwner && w.m.creates != createsBefore && otherOwner {
				return labels, Violf("C12", "watch-not-idempotent", "step %d: repeated Watch(owner %d, %s) created another informer", i, op.Owner, c12Kinds[k].Kind)
			}
			if hadOwner {
				labels["rewatch"] = true
			}
			w.model[k][op.Owner] = true
		case "free":
			if ferr := w.c.Free(ctx, c12Owner(op.Owner)); ferr != nil {
				return labels, Violf("C12", "free-failed", "step %d: Free returned %v", i, ferr)
			}
			for ki := range c12Kinds {
				if w.model[ki][op.Owner] && len(w.model[ki]) > 1 {
					labels["free-one-of-two-owners"] = true
				}
				delete(w.model[ki], op.Owner)
			}
		case "get", "list":
			getsBefore, createsBefore := w.m.getCalls, w.m.creates
			var rerr error
			if op.Op == "get" {
				rerr = w.c.Get(ctx, client.ObjectKey{Namespace: "ns", Name: "x"}, c12Obj(k))
			} else {
				l := &unstructured.UnstructuredList{}
				gvk := c12Kinds[k]
				gvk.Kind += "List"
				l.SetGroupVersionKind(gvk)
				rerr = w.c.List(ctx, l)
			}
			watched := len(w.model[k]) > 0
			if !watched && !w.pending[k] {
				labels["read-unwatched"] = true
				var cns *CacheNotStartedError
				if !errors.As(rerr, &cns) {
					return labels, Violf("C12", "read-of-unwatched-kind-did-not-fail", "step %d: %s of unwatched kind %s returned %v", i, op.Op, c12Kinds[k].Kind, rerr)
				}
				if w.m.getCalls != getsBefore || w.m.creates != createsBefore {
					return labels, Violf("C12", "read-of-unwatched-kind-started-informer", "step %d: %s of unwatched kind %s reached the informer map", i, op.Op, c12Kinds[k].Kind)
				}
			}
			if w.pending[k] && w.m.creates != createsBefore {
				// a read silently started an informer for a kind whose Watch had failed: it has no handlers
				return labels, Violf("C12", "read-started-informer-after-failed-watch",
					"step %d: %s of kind %s (whose last Watch failed) silently created an informer", i, op.Op, c12Kinds[k].Kind)
			}
			if watched && rerr != nil {
				return labels, Violf("C12", "read-of-watched-kind-failed", "step %d: %s of watched kind %s failed: %v", i, op.Op, c12Kinds[k].Kind, rerr)
			}
		case "owners":
			got := w.c.OwnersForGKV(c12Kinds[k])
			var names []string
			for _, o := range got {
				names = append(names, o.Name)
			}
			sort.Strings(names)
			var want []string
			for o := range w.model[k] {
				want = append(want, fmt.Sprintf("owner-%d", o))
			}
			sort.Strings(want)
			if !w.pending[k] && fmt.Sprint(names) != fmt.Sprint(want) {
				return labels, Violf("C12", "owners-mismatch", "step %d: OwnersForGKV(%s) = %v, model %v", i, c12Kinds[k].Kind, names, want)
			}
		}
		if err := w.check(i, op); err != nil {
			return labels, err
		}
	}
	return labels, nil
}

func genC12(t *rapid.T, owners, kinds, maxLen int) *c12Case {
	c := &c12Case{Part: "seq", Handlers: rapid.IntRange(1, 3).Draw(t, "handlers")}
	n := rapid.IntRange(1, maxLen).Draw(t, "n")
	for i := 0; i < n; i++ {
		op := c12Op{Owner: rapid.IntRange(0, owners-1).Draw(t, "owner"), Kind: rapid.IntRange(0, kinds-1).Draw(t, "kind")}
		op.Op = rapid.SampledFrom([]string{"watch", "watch", "watch", "free", "free", "get", "list", "owners", "failget", "failreg"}).Draw(t, "op")
		c.Ops = append(c.Ops, op)
	}
	return c
}

func c12Nontrivial(l map[string]bool) bool {
	return l["free-one-of-two-owners"] || l["rewatch"] || l["retry-after-failure"]
}

func labelList(l map[string]bool) []string {
	var out []string
	for k := range l {
		out = append(out, k)
	}
	sort.Strings(out)
	return out
}

func TestC12Sequences(t *testing.T) {
	st := NewStats("C12", "seq", "case = sequence of Watch/Free/Get/List/OwnersForGKV over 3 owners x 3 kinds with scripted informer-start and handler-registration failures, on the real Cache with a scripted informer map and the real cacheSource with 1-3 registered handlers; oracle = sequential owner-set model + handler attachment + event delivery after every step; non-trivial = sequence containing a Free of one of two owners of a kind, a re-Watch, or a retry after a failed start")
	CheckOrReplay(t, st, func(data []byte) (any, error) {
		var c c12Case
		if err := json.Unmarshal(data, &c); err != nil {
			return nil, err
		}
		_, err := runC12(&c)
		return &c, err
	}, func(rt *rapid.T) {
		c := genC12(rt, 3, 3, 14)
		l, err := runC12(c)
		st.Case(c, c12Nontrivial(l), labelList(l)...)
		st.Report(rt, c, err)
	})
}

// TestC12Exhaustive enumerates every sequence up to a length bound over a 2 owners x 2 kinds alphabet.
func TestC12Exhaustive(t *testing.T) {
	if *flagReplay != "" {
		t.Skip()
	}
	st := NewStats("C12", "exhaustive", "all sequences up to length L (L = 4 + scale, capped at 6) over the alphabet {Watch(o,k), Free(o), Get(k), List(k), failNextStart, failNextRegistration} with 2 owners x 2 kinds, one handler; same oracle as the random sequences; non-trivial as above")
	var alphabet []c12Op
	for o := 0; o < 2; o++ {
		for k := 0; k < 2; k++ {
			alphabet = append(alphabet, c12Op{Op: "watch", Owner: o, Kind: k})
		}
		alphabet = append(alphabet, c12Op{Op: "free", Owner: o})
	}
	for k := 0; k < 2; k++ {
		alphabet = append(alphabet, c12Op{Op: "get", Kind: k})
	}
	alphabet = append(alphabet, c12Op{Op: "list", Kind: 0}, c12Op{Op: "failget"}, c12Op{Op: "failreg"})
	maxLen := 4 + *flagScale
	if maxLen > 6 {
		maxLen = 6
	}
	st.Exhaustive = true
	var total int64
	var rec func(prefix []c12Op, depth int) bool
	knownHit := map[string]bool{}
	rec = func(prefix []c12Op, depth int) bool {
		if depth > 0 {
			c := &c12Case{Part: "seq", Handlers: 1, Ops: append([]c12Op{}, prefix...)}
			l, err := runC12(c)
			total++
			st.Case(c, c12Nontrivial(l), labelList(l)...)
			if err != nil {
				v, ok := err.(*Violation)
				if !ok {
					t.Fatalf("HARNESS-ERROR: %v", err)
				}
				if IsKnown(v) {
					st.Known(v)
					knownHit[v.Key] = true
					return true // do not extend a failing prefix
				}
				st.Report(t, c, err)
				return false
			}
		}
		if depth == maxLen {
			return true
		}
		for _, op := range alphabet {
			if !rec(append(prefix, op), depth+1) {
				return false
			}
		}
		return true
	}
	rec(nil, 0)
	st.SpaceSize = total
}

// TestC12Race runs generated per-goroutine programs concurrently (race detector build) and checks the
// final state against the model of the successful calls: after everything is freed no informer is left,
// and every informer that was created got its handlers.
func TestC12Race(t *testing.T) {
	if *flagReplay != "" {
		t.Skip()
	}
	st := NewStats("C12", "race", "3-4 goroutines each running a generated program of Watch/Free/Get/List/OwnersForGKV against one Cache (scripted, thread-safe informer map), built with -race; oracle = no data race, no panic, reads of never-watched kinds fail, and after a final Free of every owner no informer is left running and every created informer had all handlers; non-trivial = programs where two goroutines touch the same kind")
	rapid.Check(t, func(rt *rapid.T) {
		ng := rapid.IntRange(3, 4).Draw(rt, "goroutines")
		progs := make([][]c12Op, ng)
		kindsTouched := map[int]int{}
		for g := range progs {
			n := rapid.IntRange(1, 8).Draw(rt, "len")
			seen := map[int]bool{}
			for i := 0; i < n; i++ {
				op := c12Op{Owner: g, Kind: rapid.IntRange(0, 1).Draw(rt, "kind")}
				op.Op = rapid.SampledFrom([]string{"watch", "watch", "free", "get", "list", "owners"}).Draw(rt, "op")
				progs[g] = append(progs[g], op)
				seen[op.Kind] = true
			}
			for k := range seen {
				kindsTouched[k]++
			}
		}
		shared := false
		for _, n := range kindsTouched {
			if n >= 2 {
				shared = true
			}
		}
		w := newC12World(2)
		ctx := context.Background()
		var wg sync.WaitGroup
		errs := make(chan error, ng)
		for g := range progs {
			wg.Add(1)
			go func(g int) {
				defer wg.Done()
				defer func() {
					if r := recover(); r != nil {
						errs <- fmt.Errorf("panic: %v", r)
					}
				}()
				for _, op := range progs[g] {
					switch op.Op {
					case "watch":
						_ = w.c.Watch(ctx, c12Owner(op.Owner), c12Obj(op.Kind))
					case "free":
						_ = w.c.Free(ctx, c12Owner(op.Owner))
					case "get":
						_ = w.c.Get(ctx, client.ObjectKey{Name: "x"}, c12Obj(op.Kind))
					case "list":
						l := &unstructured.UnstructuredList{}
						gvk := c12Kinds[op.Kind]
						gvk.Kind += "List"
						l.SetGroupVersionKind(gvk)
						_ = w.c.List(ctx, l)
					case "owners":
						_ = w.c.OwnersForGKV(c12Kinds[op.Kind])
					}
				}
			}(g)
		}
		done := make(chan struct{})
		go func() { wg.Wait(); close(done) }()
		select {
		case <-done:
		case <-time.After(20 * time.Second):
			rt.Fatalf("HARNESS-ERROR: goroutines did not finish")
		}
		close(errs)
		var err error
		for e := range errs {
			err = Violf("C12", "panic-under-concurrency", "%v", e)
		}
		if err == nil {
			for g := 0; g < ng; g++ {
				_ = w.c.Free(ctx, c12Owner(g))
			}
			if lk := w.m.liveKinds(); len(lk) != 0 {
				err = Violf("C12", "informer-left-after-all-owners-freed", "after concurrent programs and freeing every owner, informers still run for %v", lk)
			}
			for _, inf := range w.m.all {
				if err == nil && len(inf.handlers) != 2 {
					err = Violf("C12", "informer-without-handlers", "informer #%d for %s got %d of 2 handlers under concurrency", inf.id, inf.gvk.Kind, len(inf.handlers))
				}
			}
			// a kind never watched by anyone must have been refused
			if ge := w.c.Get(ctx, client.ObjectKey{Name: "x"}, c12Obj(2)); ge == nil {
				err = Violf("C12", "read-of-unwatched-kind-did-not-fail", "Get of a never watched kind succeeded")
			}
		}
		c := map[string]any{"part": "race", "programs": progs}
		st.Case(c, shared)
		st.Report(rt, c, err)
	})
}


// ---- scheduled two-thread interleavings ------------------------------------------------------------

type c12PairCase struct {
	Part   string  `json:"part"`
	Prefix []c12Op `json:"prefix"`
	A      c12Op   `json:"a"` // runs first and is parked at the informer-map boundary (if it gets there)
	B      c12Op   `json:"b"` // runs while A is parked (or blocks on A's lock until A is released)
}

func (w *c12World) apply(ctx context.Context, op c12Op) {
	k := op.Kind % len(c12Kinds)
	switch op.Op {
	case "watch":
		_ = w.c.Watch(ctx, c12Owner(op.Owner), c12Obj(k))
	case "free":
		_ = w.c.Free(ctx, c12Owner(op.Owner))
	case "get":
		_ = w.c.Get(ctx, client.ObjectKey{Namespace: "ns", Name: "x"}, c12Obj(k))
	case "list":
		l := &unstructured.UnstructuredList{}
		gvk := c12Kinds[k]
		gvk.Kind += "List"
		l.SetGroupVersionKind(gvk)
		_ = w.c.List(ctx, l)
	}
}

func modelApply(m map[int]map[int]bool, op c12Op) {
	k := op.Kind % len(c12Kinds)
	switch op.Op {
	case "watch":
		if m[k] == nil {
			m[k] = map[int]bool{}
		}
		m[k][op.Owner] = true
	case "free":
		for ki := range c12Kinds {
			delete(m[ki], op.Owner)
		}
	}
}

func copyModel(m map[int]map[int]bool) map[int]map[int]bool {
	out := map[int]map[int]bool{}
	for k, v := range m {
		out[k] = map[int]bool{}
		for o := range v {
			out[k][o] = true
		}
	}
	return out
}

func liveMatches(w *c12World, m map[int]map[int]bool) bool {
	live := map[string]bool{}
	for _, k := range w.m.liveKinds() {
		live[k] = true
	}
	for ki, gvk := range c12Kinds {
		if live[gvk.Kind] != (len(m[ki]) > 0) {
			return false
		}
	}
	return true
}

func runC12Pair(c *c12PairCase) (parked bool, err error) {
	ctx := context.Background()
	w := newC12World(1)
	model := map[int]map[int]bool{}
	for _, op := range c.Prefix {
		w.apply(ctx, op)
		modelApply(model, op)
	}
	reached := make(chan struct{}, 1)
	release := make(chan struct{})
	var once sync.Once
	w.m.mu.Lock()
	w.m.parkGet = func(schema.GroupVersionKind) {
		first := false
		once.Do(func() { first = true })
		if !first {
			return
		}
		reached <- struct{}{}
		<-release
	}
	w.m.mu.Unlock()
	doneA := make(chan struct{})
	go func() { defer close(doneA); w.apply(ctx, c.A) }()
	select {
	case <-reached:
		parked = true
	case <-doneA:
	case <-time.After(2 * time.Second):
		return false, fmt.Errorf("operation A neither finished nor reached the informer map")
	}
	doneB := make(chan struct{})
	go func() { defer close(doneB); w.apply(ctx, c.B) }()
	select {
	case <-doneB:
	case <-time.After(150 * time.Millisecond):
		// B is blocked behind A's lock: that is a legal outcome (A's critical section covers the map access)
	}
	close(release)
	for _, ch := range []chan struct{}{doneA, doneB} {
		select {
		case <-ch:
		case <-time.After(5 * time.Second):
			return parked, Violf("C12", "deadlock-under-interleaving", "prefix %v, A=%+v parked at the informer map, B=%+v: operations did not finish", c.Prefix, c.A, c.B)
		}
	}
	w.m.mu.Lock()
	w.m.parkGet = nil
	w.m.mu.Unlock()
	ab := copyModel(model)
	modelApply(ab, c.A)
	modelApply(ab, c.B)
	ba := copyModel(model)
	modelApply(ba, c.B)
	modelApply(ba, c.A)
	if !liveMatches(w, ab) && !liveMatches(w, ba) {
		return parked, Violf("C12", "interleaving-not-linearizable",
			"prefix %v, A=%+v held at the informer-map boundary while B=%+v ran: running informers %v match neither order of the two operations (owners A;B=%v B;A=%v)",
			c.Prefix, c.A, c.B, w.m.liveKinds(), ab, ba)
	}
	w.m.mu.Lock()
	defer w.m.mu.Unlock()
	for gvk, inf := range w.m.live {
		if len(inf.handlers) != 1 {
			return parked, Violf("C12", "informer-without-handlers", "after interleaving A=%+v / B=%+v the informer for %s has %d handlers", c.A, c.B, gvk.Kind, len(inf.handlers))
		}
	}
	return parked, nil
}

// TestC12Interleave enumerates two-operation interleavings in which the first operation is held at the
// informer-map boundary while the second one runs (the harness owns this scheduling decision).
func TestC12Interleave(t *testing.T) {
	st := NewStats("C12", "interleave", "every pair (A,B) of Watch/Free/Get/List over 2 owners x 2 kinds after every prefix of 0-2 Watch/Free operations: A is started and held at the entry of the informer map (if it gets there), B runs to completion or blocks behind A's lock, then A is released; oracle = the set of running informers equals the owner-set model for one of the two sequential orders, handlers attached; non-trivial = A actually reached the informer map")
	var ops []c12Op
	for o := 0; o < 2; o++ {
		for k := 0; k < 2; k++ {
			ops = append(ops, c12Op{Op: "watch", Owner: o, Kind: k})
		}
		ops = append(ops, c12Op{Op: "free", Owner: o})
	}
	for k := 0; k < 2; k++ {
		ops = append(ops, c12Op{Op: "get", Kind: k}, c12Op{Op: "list", Kind: k})
	}
	if *flagReplay != "" {
		CheckOrReplay(t, st, func(data []byte) (any, error) {
			var c c12PairCase
			if err := json.Unmarshal(data, &c); err != nil {
				return nil, err
			}
			_, err := runC12Pair(&c)
			return &c, err
		}, nil)
		return
	}
	var prefixes [][]c12Op
	prefixes = append(prefixes, nil)
	wf := ops[:6]
	for _, a := range wf {
		prefixes = append(prefixes, []c12Op{a})
	}
	if *flagScale > 1 {
		for _, a := range wf {
			for _, b := range wf {
				prefixes = append(prefixes, []c12Op{a, b})
			}
		}
	} else {
		prefixes = append(prefixes, []c12Op{wf[0], wf[3]}, []c12Op{wf[0], wf[1]}, []c12Op{wf[0], wf[2]})
	}
	shard, shards := 0, 1
	fmt.Sscan(os.Getenv("VERIF_SHARD"), &shard)
	fmt.Sscan(os.Getenv("VERIF_SHARDS"), &shards)
	if shards < 1 {
		shards = 1
	}
	n := 0
	st.Exhaustive = true
	for _, pre := range prefixes {
		for _, a := range ops {
			for _, b := range ops {
				n++
				if n%shards != shard%shards {
					continue
				}
				c := &c12PairCase{Part: "interleave", Prefix: pre, A: a, B: b}
				parked, err := runC12Pair(c)
				st.Case(c, parked)
				if err != nil {
					if v, ok := err.(*Violation); ok && IsKnown(v) {
						st.Known(v)
						continue
					}
					st.Report(t, c, err)
					return
				}
			}
		}
	}
	st.SpaceSize = int64(n)
}
