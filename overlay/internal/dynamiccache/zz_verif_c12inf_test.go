//go:build verif

package dynamiccache

import (
	"context"
	"encoding/json"
	"errors"
	"fmt"
	"sync"
	"testing"
	"time"

	corev1 "k8s.io/api/core/v1"
	apimachinerymeta "k8s.io/apimachinery/pkg/api/meta"
	metav1 "k8s.io/apimachinery/pkg/apis/meta/v1"
	"k8s.io/apimachinery/pkg/apis/meta/v1/unstructured"
	"k8s.io/apimachinery/pkg/runtime"
	"k8s.io/apimachinery/pkg/runtime/schema"
	"k8s.io/apimachinery/pkg/watch"
	"k8s.io/client-go/dynamic"
	"pgregory.net/rapid"
	"sigs.k8s.io/controller-runtime/pkg/client"
)

// Part "informers" of C12: the real Cache on top of the real InformerMap and real client-go informers; only the API
// server is scripted (a dynamic.Interface whose LIST of a kind blocks while that kind's gate is closed and whose WATCHes
// are counted). What the scripted informer map of the other parts cannot show is what happens to an informer whose start
// "failed" after its goroutine was launched: the initial sync outliving the caller's context.

var c12infKinds = []schema.GroupVersionKind{
	{Version: "v1", Kind: "ConfigMap"},
	{Version: "v1", Kind: "Secret"},
}

type scriptedAPI struct {
	dynamic.Interface // nil: only Resource() is used by the InformerMap

	mu       sync.Mutex
	cond     *sync.Cond
	open     map[string]bool // resource -> LIST answers
	inFlight map[string]int  // resource -> LIST calls waiting at the gate
	lists    map[string]int
	watchers map[string][]*watch.FakeWatcher
}

func newScriptedAPI() *scriptedAPI {
	a := &scriptedAPI{open: map[string]bool{}, inFlight: map[string]int{}, lists: map[string]int{}, watchers: map[string][]*watch.FakeWatcher{}}
	a.cond = sync.NewCond(&a.mu)
	return a
}

func (a *scriptedAPI) Resource(gvr schema.GroupVersionResource) dynamic.NamespaceableResourceInterface {
	return &scriptedResource{a: a, res: gvr.Resource}
}

func (a *scriptedAPI) setGate(res string, open bool) {
	a.mu.Lock()
	a.open[res] = open
	a.mu.Unlock()
	a.cond.Broadcast()
}

func (a *scriptedAPI) running(res string) int {
	a.mu.Lock()
	defer a.mu.Unlock()
	n := 0
	for _, w := range a.watchers[res] {
		if !w.IsStopped() {
			n++
		}
	}
	return n
}

func (a *scriptedAPI) pendingLists() int {
	a.mu.Lock()
	defer a.mu.Unlock()
	n := 0
	for _, v := range a.inFlight {
		n += v
	}
	return n
}

type scriptedResource struct {
	dynamic.NamespaceableResourceInterface // nil: informers only List and Watch
	a   *scriptedAPI
	res string
}

func (r *scriptedResource) List(ctx context.Context, _ metav1.ListOptions) (*unstructured.UnstructuredList, error) {
	a := r.a
	// like a real client, requests end with the context they were made with
	if err := ctx.Err(); err != nil {
		return nil, err
	}
	a.mu.Lock()
	a.lists[r.res]++
	a.inFlight[r.res]++
	for !a.open[r.res] {
		a.cond.Wait()
	}
	a.inFlight[r.res]--
	a.mu.Unlock()
	l := &unstructured.UnstructuredList{}
	l.SetAPIVersion("v1")
	l.SetKind("List")
	l.SetResourceVersion("1")
	return l, nil
}

func (r *scriptedResource) Watch(ctx context.Context, _ metav1.ListOptions) (watch.Interface, error) {
	if err := ctx.Err(); err != nil {
		return nil, err
	}
	w := watch.NewFake()
	if ctx.Done() != nil {
		go func() {
			<-ctx.Done()
			w.Stop() // the stream of a request whose context ended is closed
		}()
	}
	r.a.mu.Lock()
	r.a.watchers[r.res] = append(r.a.watchers[r.res], w)
	r.a.mu.Unlock()
	return w, nil
}

type c12infOp struct {
	Op    string `json:"op"` // watch | free | gate | get
	Owner int    `json:"owner,omitempty"`
	Kind  int    `json:"kind,omitempty"`
	Open  bool   `json:"open,omitempty"`
}

type c12infCase struct {
	Part string     `json:"part"`
	Ops  []c12infOp `json:"ops"`
}

func c12infResource(k int) string {
	return map[string]string{"ConfigMap": "configmaps", "Secret": "secrets"}[c12infKinds[k].Kind]
}

func c12infWaitFor(d time.Duration, cond func() bool) bool {
	deadline := time.Now().Add(d)
	for {
		if cond() {
			return true
		}
		if time.Now().After(deadline) {
			return false
		}
		time.Sleep(5 * time.Millisecond)
	}
}

func runC12Inf(c *c12infCase) (labels map[string]bool, err error) {
	labels = map[string]bool{}
	scheme := runtime.NewScheme()
	_ = corev1.AddToScheme(scheme)
	mapper := apimachinerymeta.NewDefaultRESTMapper([]schema.GroupVersion{{Version: "v1"}})
	for _, gvk := range c12infKinds {
		mapper.Add(gvk, apimachinerymeta.RESTScopeNamespace)
	}
	api := newScriptedAPI()
	for k := range c12infKinds {
		api.open[c12infResource(k)] = true
	}
	cch := &Cache{
		scheme:             scheme,
		informerReferences: map[schema.GroupVersionKind]map[OwnerReference]struct{}{},
		cacheSource:        &cacheSource{},
		informerMap: &InformerMap{
			scheme:        scheme,
			mapper:        mapper,
			resync:        10 * time.Hour,
			selectors:     SelectorsByGVK{}.forGVK,
			indexers:      FieldIndexersByGVK{}.forGVK,
			informers:     map[schema.GroupVersionKind]mapEntry{},
			dynamicClient: api,
		},
	}
	_ = cch.Start(context.Background())
	// whatever happens, no goroutine of this case stays blocked at a gate, and every informer the map knows is stopped
	defer func() {
		for k := range c12infKinds {
			api.setGate(c12infResource(k), true)
			_ = cch.informerMap.Delete(context.Background(), c12infKinds[k])
		}
	}()
	obj := func(k int) *unstructured.Unstructured {
		u := &unstructured.Unstructured{}
		u.SetGroupVersionKind(c12infKinds[k])
		return u
	}
	// watching[k][o]: o's Watch of k succeeded and o was not freed since; asked[k][o]: o called Watch (whatever the answer)
	watching := map[int]map[int]bool{}
	asked := map[int]map[int]bool{}
	for k := range c12infKinds {
		watching[k], asked[k] = map[int]bool{}, map[int]bool{}
	}
	bg := context.Background()
	for i, op := range c.Ops {
		k := op.Kind % len(c12infKinds)
		res := c12infResource(k)
		switch op.Op {
		case "gate":
			api.setGate(res, op.Open)
			if !op.Open {
				labels["gate-closed"] = true
			}
		case "watch":
			api.mu.Lock()
			open := api.open[res]
			api.mu.Unlock()
			needsSync := len(watching[k]) == 0
			timeout := 10 * time.Second
			if !open && needsSync {
				// the API server does not answer: the caller's context ends during the initial sync
				timeout = 40 * time.Millisecond
			}
			ctx, cancel := context.WithTimeout(bg, timeout)
			werr := cch.Watch(ctx, c12Owner(op.Owner), obj(k))
			cancel()
			asked[k][op.Owner] = true
			if werr == nil {
				if len(watching[k]) > 0 {
					labels["second-owner-or-rewatch"] = true
				}
				if labels[fmt.Sprintf("failed-start-%d", k)] {
					labels["retry-after-failed-start"] = true
				}
				watching[k][op.Owner] = true
			} else {
				labels[fmt.Sprintf("failed-start-%d", k)] = true
				labels["start-outlived-by-sync"] = true
				if open {
					return labels, Violf("C12", "watch-failed-on-healthy-api", "step %d: Watch(%d, %s) failed although the API answers: %v", i, op.Owner, c12infKinds[k].Kind, werr)
				}
			}
		case "free":
			if ferr := cch.Free(bg, c12Owner(op.Owner)); ferr != nil {
				return labels, Violf("C12", "free-failed", "step %d: Free(%d): %v", i, op.Owner, ferr)
			}
			for kk := range c12infKinds {
				if watching[kk][op.Owner] && len(watching[kk]) > 1 {
					labels["free-one-of-two-owners"] = true
				}
				delete(watching[kk], op.Owner)
				delete(asked[kk], op.Owner)
			}
		case "get":
			ctx, cancel := context.WithTimeout(bg, 10*time.Second)
			gerr := cch.Get(ctx, client.ObjectKey{Namespace: "ns", Name: "x"}, obj(k))
			cancel()
			var notStarted *CacheNotStartedError
			if len(watching[k]) == 0 && len(asked[k]) == 0 && !errors.As(gerr, &notStarted) {
				return labels, Violf("C12", "read-of-unwatched-kind-did-not-fail", "step %d: Get of %s, which nobody watches, answered %v", i, c12infKinds[k].Kind, gerr)
			}
			if len(watching[k]) > 0 && errors.As(gerr, &notStarted) {
				return labels, Violf("C12", "read-of-watched-kind-refused", "step %d: Get of %s, watched by %v, answered %v", i, c12infKinds[k].Kind, keysOf(watching[k]), gerr)
			}
		}
	}
	settle := func(phase string) error {
		// the API server answers again; every LIST that was waiting returns, every informer still alive goes on to WATCH
		for k := range c12infKinds {
			api.setGate(c12infResource(k), true)
		}
		c12infWaitFor(5*time.Second, func() bool { return api.pendingLists() == 0 })
		time.Sleep(150 * time.Millisecond)
		for k, gvk := range c12infKinds {
			res := c12infResource(k)
			switch {
			case len(watching[k]) > 0:
				if !c12infWaitFor(5*time.Second, func() bool { return api.running(res) >= 1 }) {
					return Violf("C12", "no-informer-for-watched-kind", "%s: %s is watched by owners %v but no informer is list-watching it", phase, gvk.Kind, keysOf(watching[k]))
				}
				if n := api.running(res); n > 1 {
					if !c12infWaitFor(3*time.Second, func() bool { return api.running(res) <= 1 }) {
						return Violf("C12", "more-than-one-informer-for-kind", "%s: %d informers are list-watching %s (owners %v)", phase, n, gvk.Kind, keysOf(watching[k]))
					}
				}
			case len(asked[k]) == 0:
				if !c12infWaitFor(3*time.Second, func() bool { return api.running(res) == 0 }) {
					return Violf("C12", "informer-running-for-kind-nobody-watches", "%s: nobody watches %s (every owner that ever asked was freed), but %d informer(s) keep list-watching it", phase, gvk.Kind, api.running(res))
				}
			default:
				// only owners whose Watch failed: no claim on whether an informer runs, but never two
				if n := api.running(res); n > 1 {
					if !c12infWaitFor(3*time.Second, func() bool { return api.running(res) <= 1 }) {
						return Violf("C12", "more-than-one-informer-for-kind", "%s: %d informers are list-watching %s", phase, n, gvk.Kind)
					}
				}
			}
		}
		return nil
	}
	if err := settle("after the sequence"); err != nil {
		return labels, err
	}
	for o := 0; o < 3; o++ {
		if ferr := cch.Free(bg, c12Owner(o)); ferr != nil {
			return labels, Violf("C12", "free-failed", "final Free(%d): %v", o, ferr)
		}
		for k := range c12infKinds {
			delete(watching[k], o)
			delete(asked[k], o)
		}
	}
	return labels, settle("after every owner was freed")
}

func genC12Inf(t *rapid.T) *c12infCase {
	c := &c12infCase{Part: "informers"}
	n := rapid.IntRange(1, 8).Draw(t, "n")
	for i := 0; i < n; i++ {
		op := c12infOp{Owner: rapid.IntRange(0, 2).Draw(t, "owner"), Kind: rapid.IntRange(0, len(c12infKinds)-1).Draw(t, "kind")}
		op.Op = rapid.SampledFrom([]string{"watch", "watch", "watch", "free", "gate", "gate", "get"}).Draw(t, "op")
		if op.Op == "gate" {
			op.Open = rapid.IntRange(0, 2).Draw(t, "open") == 0
		}
		c.Ops = append(c.Ops, op)
	}
	return c
}

func TestC12Informers(t *testing.T) {
	st := NewStats("C12", "informers", "case = sequence of Watch/Free/Get over 3 owners x 2 kinds on the real Cache, the real InformerMap and real client-go informers against a scripted API server whose LIST of a kind can be made to hang (a Watch whose initial sync outlives the caller's context fails); at the end the API answers again, then every owner is freed; oracle = number of informers actually list-watching each kind (open WATCH connections) vs. the owner-set model: exactly one while somebody watches the kind, none once every owner that asked was freed, never two; non-trivial = a Watch failed because the sync outlived its context, or a second owner / re-watch / free of one of two owners")
	CheckOrReplay(t, st, func(data []byte) (any, error) {
		var c c12infCase
		if err := json.Unmarshal(data, &c); err != nil {
			return nil, err
		}
		_, err := runC12Inf(&c)
		return &c, err
	}, func(rt *rapid.T) {
		c := genC12Inf(rt)
		l, err := runC12Inf(c)
		st.Case(c, l["start-outlived-by-sync"] || l["second-owner-or-rewatch"] || l["free-one-of-two-owners"], labelList(l)...)
		st.Report(rt, c, err)
	})
}
