"""Per-property check configuration: which test functions decide the property, in which build
vehicle, and with what budgets.  Keep in sync with MANIFEST.json (bin/mkmanifest writes it)."""

ENGINE_ASSUMPTIONS = [
    "kubesim (harness/kubesim) models the API server: optimistic concurrency, status subresource, generation, finalizers/deletionTimestamp, delete preconditions, merge/JSON patch, a leaf-ownership model of server-side apply (ownerReferences keyed by uid), storage no-op writes; fidelity items listed in DESIGN.md 3.1",
    "the dynamic cache is replaced by a model with fresh, label-selected reads that refuses unwatched kinds (the real cache is checked separately under C12)",
    "any reconcile may run at any time (superset of event-driven schedules); time-based requeues are ignored; successDelaySeconds=0",
]

def engine_prop(test, quick=800, thorough=60000):
    return {"level": "exploration", "assumptions": ENGINE_ASSUMPTIONS,
            "parts": [{"name": "engine", "test": test, "quick_checks": quick, "thorough_checks": thorough, "thorough_shards": 16}]}


PURE_ASSUMPTIONS = ["the reference evaluator/model in harness/refmodel is an independent reading of the property statement; inputs come from the stated generator grammar only"]

PROPS = {
    "C12": {"level": "exploration", "assumptions": ["in the parts seq / exhaustive / interleave / race the informer map is scripted (creation / sync / handler registration outcomes are chosen by the scenario); the part informers runs the real InformerMap and real client-go informers against a scripted API server (LIST can hang, WATCH connections are counted) but delivers no events; it waits bounded times for goroutines to settle, and only reports what persists", "the concurrent part relies on the Go race detector and final-state checks; interleavings are sampled, not enumerated"],
            "parts": [
                {"name": "seq", "vehicle": "overlay", "pkg": "internal/dynamiccache", "test": "TestC12Sequences", "quick_checks": 20000, "thorough_checks": 800000, "thorough_shards": 16},
                {"name": "exhaustive", "vehicle": "overlay", "pkg": "internal/dynamiccache", "test": "TestC12Exhaustive", "quick_checks": 1, "quick_scale": 0, "thorough_scale": 2, "replayable": False},
                {"name": "interleave", "vehicle": "overlay", "pkg": "internal/dynamiccache", "test": "TestC12Interleave", "quick_checks": 1, "quick_shards": 16, "quick_scale": 1, "thorough_shards": 16, "thorough_scale": 2},
                {"name": "race", "vehicle": "overlay", "pkg": "internal/dynamiccache", "race": True, "test": "TestC12Race", "quick_checks": 300, "thorough_checks": 20000, "thorough_shards": 8, "replayable": False},
                {"name": "informers", "vehicle": "overlay", "pkg": "internal/dynamiccache", "test": "TestC12Informers", "quick_checks": 240, "quick_shards": 8, "thorough_checks": 8000, "thorough_shards": 16},
            ]},
    "C20": {"level": "exploration", "assumptions": ["the registry pull is replaced by a scripted function (set in-package through the overlay); in the scripted part every scheduling decision between registration, completion and broadcast is made by the scenario; the free-running part samples Go scheduler interleavings under the race detector"],
            "parts": [
                {"name": "scripted", "vehicle": "overlay", "pkg": "internal/packages/internal/packageimport", "race": True, "test": "TestC20", "quick_checks": 300, "thorough_checks": 12000, "thorough_shards": 16},
                {"name": "free", "vehicle": "overlay", "pkg": "internal/packages/internal/packageimport", "race": True, "test": "TestC20Free", "quick_checks": 300, "thorough_checks": 30000, "thorough_shards": 8, "replayable": False},
            ]},
    "C13": {"level": "exploration", "assumptions": PURE_ASSUMPTIONS + ["templates come from a grammar around the offered function set (config access, sprig string functions, include of a uniquely named helper, getFile), not arbitrary Go templates"],
            "parts": [
                {"name": "render", "test": "TestC13", "quick_checks": 1500, "thorough_checks": 120000, "thorough_shards": 16},
                {"name": "context", "test": "TestC13Context", "quick_checks": 600, "thorough_checks": 40000, "thorough_shards": 16},
                {"name": "hermetic", "test": "TestC13Hermetic", "quick_checks": 3000, "thorough_checks": 200000, "thorough_shards": 8, "replayable": False},
            ]},
    "C14": {"level": "exploration", "assumptions": ENGINE_ASSUMPTIONS + ["the 1 MiB chunk limit is a constant; sizes are generated around it but the number of near-limit objects per case is small"],
            "parts": [
                {"name": "differential", "test": "TestC14Differential", "quick_checks": 400, "thorough_checks": 40000, "thorough_shards": 16},
                {"name": "packages", "test": "TestC14Packages", "quick_checks": 300, "thorough_checks": 20000, "thorough_shards": 16},
                {"name": "deployments", "test": "TestC14Deployments", "quick_checks": 600, "thorough_checks": 24000, "thorough_shards": 16},
                {"name": "gc", "vehicle": "overlay", "pkg": "internal/packages/internal/packagedeploy", "test": "TestC14GC", "quick_checks": 1500, "thorough_checks": 80000, "thorough_shards": 16},
                {"name": "collision", "vehicle": "overlay", "pkg": "internal/packages/internal/packagedeploy", "test": "TestC14Collision", "quick_checks": 200, "thorough_checks": 3200, "thorough_shards": 16},
                {"name": "chunking", "vehicle": "overlay", "pkg": "internal/packages/internal/packagedeploy", "test": "TestC14Chunking", "quick_checks": 1200, "thorough_checks": 16000, "thorough_shards": 16},
            ]},
    "C17": {"level": "exploration", "assumptions": PURE_ASSUMPTIONS,
            "parts": [{"name": "probing", "test": "TestC17", "quick_checks": 20000, "thorough_checks": 2000000, "thorough_shards": 16}]},
    "C04": engine_prop("TestC04"),
    "C05": engine_prop("TestC05"),
    "C06": engine_prop("TestC06", quick=2400),
    "C07": engine_prop("TestC07"),
    "C08": engine_prop("TestC08"),
    "C09": engine_prop("TestC09"),
    "C10": {"level": "fault_enumeration", "assumptions": ENGINE_ASSUMPTIONS + ["'eventually' is decided as bounded convergence under the model's fair round-robin scheduler (30 rounds); real requeue timing and back-off are not exercised", "the drift alphabet is limited to edits PKO is specified to repair (delete managed object, edit desired field, drop the cache label); stripping ownership is excluded because C01 forbids re-adoption under Prevent"],
            "parts": [
                {"name": "single-fault", "test": "TestC10Faults", "quick_checks": 8, "quick_scale": 1, "thorough_checks": 160, "thorough_shards": 16, "thorough_scale": 2, "thorough_timeout": 7200},
                {"name": "sequences", "test": "TestC10Sequences", "quick_checks": 150, "thorough_checks": 12000, "thorough_shards": 16},
                {"name": "idle", "test": "TestC10Idle", "quick_checks": 48, "quick_shards": 16, "thorough_checks": 1600, "thorough_shards": 16},
            ]},
    "C15": {"level": "exploration", "assumptions": ENGINE_ASSUMPTIONS + ["only the built-in same-cluster phase class is compared with in-process phases; the multi-cluster (annotation strategy) controller is exercised under C01/C02/C04/C05 but has no in-process equivalent to compare with"],
            "parts": [{"name": "differential", "test": "TestC15", "quick_checks": 250, "thorough_checks": 16000, "thorough_shards": 16},
                      {"name": "recreate", "test": "TestC15Recreate", "quick_checks": 200, "thorough_checks": 12000, "thorough_shards": 16},
                      {"name": "stale-status", "test": "TestC15Stale", "quick_checks": 500, "thorough_checks": 40000, "thorough_shards": 16}]},
    "C16": {"level": "exploration", "assumptions": ENGINE_ASSUMPTIONS + ["the part large runs the real deployment reconciler against controller-runtime's fake client (no admission, no size limits of its own) with generated template versions instead of rendered packages"],
            "parts": [{"name": "engine", "test": "TestC16", "quick_checks": 500, "thorough_checks": 30000, "thorough_shards": 16},
                      {"name": "large", "vehicle": "overlay", "pkg": "internal/packages/internal/packagedeploy", "test": "TestC16Large", "quick_checks": 96, "quick_shards": 8, "thorough_checks": 3200, "thorough_shards": 16}]},
    "C18": engine_prop("TestC18", quick=1200, thorough=80000),
    "C19": {"level": "exploration", "death_is_violation": True, "assumptions": ["inputs come from mutation grammars around valid packages / images / schemas / status shapes, not arbitrary byte strings for every entry point; a worker that dies of a Go stack overflow (unbounded recursion cannot be recovered) is reported as a violation whose replay is the case recorded right before it ran; any other worker death is inconclusive (exit 2)"],
            "parts": [
                {"name": "pipeline", "test": "TestC19Pipeline", "quick_checks": 3000, "thorough_checks": 400000, "thorough_shards": 16},
                {"name": "oci", "test": "TestC19OCI", "quick_checks": 3000, "thorough_checks": 300000, "thorough_shards": 16},
                {"name": "config", "test": "TestC19Config", "quick_checks": 5000, "thorough_checks": 500000, "thorough_shards": 16},
                {"name": "reconcile", "test": "TestC19Reconcile", "quick_checks": 1500, "thorough_checks": 120000, "thorough_shards": 16},
                {"name": "packages", "test": "TestC19Packages", "quick_checks": 600, "thorough_checks": 40000, "thorough_shards": 16},
                {"name": "probe", "test": "TestC19Probe", "quick_checks": 5000, "thorough_checks": 600000, "thorough_shards": 16},
                {"name": "fuzz-oci", "fuzz": "FuzzC19OCI", "test": "TestC19OCI", "thorough_only": True, "thorough_seconds": 240, "replayable": False,
                 "rule": "native coverage-guided fuzzing (go test -fuzz, 16 workers) of packages.FromOCI on raw layer bytes, seeded with valid, truncated and non-tar layers; oracle inside the target: no panic; evaluations = executions reported by the fuzzing engine; non-trivial = inputs that reached new coverage and were kept in the corpus"},
                {"name": "fuzz-files", "fuzz": "FuzzC19Files", "test": "TestC19Pipeline", "thorough_only": True, "thorough_seconds": 420, "replayable": False,
                 "rule": "native coverage-guided fuzzing of the package pipeline (structural load, validators, template and object rendering, ObjectSet template) on the raw bytes of manifest.yaml, an object file and a template file, seeded with a valid package using every control annotation and hostile variants; oracle: no panic; non-trivial = inputs kept in the corpus for new coverage"},
                {"name": "fuzz-probe", "fuzz": "FuzzC19Probe", "test": "TestC19Probe", "thorough_only": True, "thorough_seconds": 240, "replayable": False,
                 "rule": "native coverage-guided fuzzing of probing.Parse + Probe on JSON probe lists x JSON objects; oracle: no panic; non-trivial = inputs kept in the corpus for new coverage"},
                {"name": "cli", "test": "TestC19CLI", "quick_checks": 600, "thorough_checks": 40000, "thorough_shards": 16},
            ]},
    "C11": engine_prop("TestC11"),
    "C01": {
        "level": "exploration",
        "assumptions": ENGINE_ASSUMPTIONS,
        "parts": [
            {"name": "engine", "test": "TestC01", "quick_checks": 800, "thorough_checks": 60000, "thorough_shards": 16},
            {"name": "teardown", "test": "TestC01Teardown", "quick_checks": 500, "thorough_checks": 30000, "thorough_shards": 16},
        ],
    },
    "C02": {
        "level": "exploration",
        "assumptions": ENGINE_ASSUMPTIONS,
        "parts": [
            {"name": "engine", "test": "TestC02", "quick_checks": 2400, "thorough_checks": 60000, "thorough_shards": 16},
        ],
    },
    "C03": {
        "level": "exploration",
        "assumptions": ENGINE_ASSUMPTIONS,
        "parts": [
            {"name": "engine", "test": "TestC03", "quick_checks": 600, "thorough_checks": 40000, "thorough_shards": 16},
        ],
    },
}
