package checks

import (
	"testing"

	"pgregory.net/rapid"

	"package-operator.run/verifharness/engine"
)

// genDeployWorld: one ObjectDeployment over a pool of 2-4 templates plus optional hand-made sets;
// template edits, pause toggles at every level, drift, workload status changes, arbitrary interleaving.
func genDeployWorld(t *rapid.T, prop string, opts SetGenOpts, extra func(t *rapid.T, sc *Scenario)) *Scenario {
	sc := &Scenario{Prop: prop}
	nt := rapid.IntRange(2, 4).Draw(t, "ntmpl")
	for i := 0; i < nt; i++ {
		s := GenSet(t, opts)
		if i > 0 && rapid.IntRange(0, 3).Draw(t, "sameprobes") > 0 {
			s.Probes = sc.Tmpls[0].Probes
		}
		sc.Tmpls = append(sc.Tmpls, s)
	}
	if rapid.IntRange(0, 7).Draw(t, "emptytmpl") == 0 {
		sc.Tmpls = append(sc.Tmpls, SetSpec{})
	}
	sc.Steps = append(sc.Steps, Step{Op: "createDeploy", I: rapid.IntRange(0, len(sc.Tmpls)-1).Draw(t, "t0"),
		J: rapid.SampledFrom([]int{0, 0, 0, 1, 2, 3, 11}).Draw(t, "limit"), On: rapid.IntRange(0, 7).Draw(t, "startpaused") == 0})
	ctrls := []string{engine.CtrlObjectDeployment, engine.CtrlObjectDeployment, engine.CtrlObjectSet, engine.CtrlObjectSet, engine.CtrlObjectSetPhase}
	n := rapid.IntRange(6, 40).Draw(t, "nsteps")
	for i := 0; i < n; i++ {
		switch k := rapid.IntRange(0, 15).Draw(t, "kind"); {
		case k <= 6:
			sc.Steps = append(sc.Steps, GenReconcile(t, ctrls))
		case k == 7:
			sc.Steps = append(sc.Steps, Step{Op: "editDeploy", I: rapid.IntRange(0, len(sc.Tmpls)-1).Draw(t, "tmpl")})
		case k == 8:
			sc.Steps = append(sc.Steps, Step{Op: "pauseDeploy", On: rapid.Bool().Draw(t, "on")})
		case k == 9:
			sc.Steps = append(sc.Steps, Step{Op: "widget", I: rapid.IntRange(0, 2).Draw(t, "w"), J: rapid.IntRange(0, len(WidgetStates)-1).Draw(t, "state")})
		case k == 10:
			sc.Steps = append(sc.Steps, Step{Op: "quiesce"})
		case k == 11:
			sc.Steps = append(sc.Steps, Step{Op: "tpReady", I: rapid.IntRange(0, 3).Draw(t, "cm"), On: rapid.Bool().Draw(t, "on")})
		default:
			if extra != nil {
				extra(t, sc)
			} else {
				sc.Steps = append(sc.Steps, GenReconcile(t, ctrls))
			}
		}
	}
	if opts.AllowCluster && rapid.IntRange(0, 3).Draw(t, "clusterdep") == 0 {
		clusterFlavour(sc)
	}
	return sc
}

// clusterFlavour turns a deployment scenario into its cluster-scoped twin: a ClusterObjectDeployment whose revisions are
// ClusterObjectSets (objects keep living in the main namespace), reconciled by the cluster flavours of the controllers.
func clusterFlavour(sc *Scenario) {
	sc.ClusterDep = true
	twin := map[string]string{engine.CtrlObjectDeployment: engine.CtrlClusterObjectDeployment, engine.CtrlObjectSet: engine.CtrlClusterObjectSet, engine.CtrlObjectSetPhase: engine.CtrlClusterObjectSetPhase}
	for i := range sc.Steps {
		if c, ok := twin[sc.Steps[i].Ctrl]; ok {
			sc.Steps[i].Ctrl = c
		}
	}
}

func c09Extra(t *rapid.T, sc *Scenario) {
	switch rapid.IntRange(0, 7).Draw(t, "x") {
	case 0, 1:
		sc.Steps = append(sc.Steps, Step{Op: "pauseSet", I: rapid.IntRange(0, 3).Draw(t, "set")})
	case 2:
		sc.Steps = append(sc.Steps, Step{Op: "unpauseSet", I: rapid.IntRange(0, 3).Draw(t, "set")})
	case 3:
		sc.Steps = append(sc.Steps, Step{Op: "tpDelete", I: rapid.IntRange(0, 6).Draw(t, "obj")})
	case 4:
		sc.Steps = append(sc.Steps, Step{Op: "tpEdit", I: rapid.IntRange(0, 6).Draw(t, "obj")})
	case 5:
		sc.Steps = append(sc.Steps, Step{Op: "tpOwn", I: rapid.IntRange(0, 6).Draw(t, "obj"), J: rapid.IntRange(0, 2).Draw(t, "own")})
	case 6:
		sc.Steps = append(sc.Steps, Step{Op: "pausePhase", I: rapid.IntRange(0, 3).Draw(t, "ph"), On: rapid.Bool().Draw(t, "on")})
	default:
		sc.Steps = append(sc.Steps, Step{Op: "historyLimit", I: rapid.IntRange(0, 4).Draw(t, "lim")})
	}
}

func TestC09(t *testing.T) {
	st := NewStats("C09", "engine", "scenario = one ObjectDeployment over 2-4 templates (local/delegated phases) with template edits and pause/unpause toggled on ObjectDeployment, ObjectSet and ObjectSetPhase at arbitrary moments during rollout, handover and drift (managed objects deleted, modified, re-owned); non-trivial = a paused ObjectSet/ObjectSetPhase pass that observes drift (an object missing or not controlled), or a deployment pass releasing revisions on unpause")
	opts := SetGenOpts{AllowClass: true, AllowCluster: true, PoolSize: 5, MaxObjs: 2, MaxPhases: 3}
	mk := func(sc *Scenario) (*Runner, *C09Monitor) {
		m := &C09Monitor{}
		return NewRunner(sc, m), m
	}
	CheckOrReplay(t, st, func(data []byte) (any, error) {
		return ReplayScenario(data, func(sc *Scenario) *Runner { r, _ := mk(sc); return r })
	}, func(rt *rapid.T) {
		sc := genDeployWorld(rt, "C09", opts, c09Extra)
		r, m := mk(sc)
		if sc.ClusterDep {
			r.Labels["cluster-scoped-deployment"] = true
		}
		err := r.Run()
		st.Count("passes", int64(len(r.W.Passes)))
		st.Count("paused_passes", int64(m.PausedPasses))
		st.Case(sc, r.Labels["c09-paused-pass-sees-drift"] || r.Labels["c09-unpause-release"], r.LabelList()...)
		st.Report(rt, sc, err)
	})
}
