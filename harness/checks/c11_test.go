package checks

import (
	"testing"

	"pgregory.net/rapid"

	"package-operator.run/verifharness/engine"
)

var c11Specials = []string{"ghost", "ownerref", "foreignns", "clusterkind", "clusterkind-ns", "reject", "dup", "dupver"}

func genC11(t *rapid.T) *Scenario {
	sc := &Scenario{Prop: "C11"}
	opts := SetGenOpts{AllowClass: true, PoolSize: 5, MaxObjs: 3, MaxPhases: 3, Specials: c11Specials, SpecialRate: 3}
	set := GenSet(t, opts)
	set.Cluster = rapid.IntRange(0, 3).Draw(t, "cluster") == 0
	sc.Steps = append(sc.Steps, Step{Op: "createSet", Set: &set})
	ctrls := []string{engine.CtrlObjectSet, engine.CtrlObjectSet, engine.CtrlObjectSetPhase}
	if set.Cluster {
		ctrls = []string{engine.CtrlClusterObjectSet, engine.CtrlClusterObjectSet, engine.CtrlClusterObjectSetPhase}
	}
	n := rapid.IntRange(3, 14).Draw(t, "nsteps")
	for i := 0; i < n; i++ {
		switch rapid.IntRange(0, 10).Draw(t, "kind") {
		case 10:
			// the API server answers one of the next pass's calls (dry runs come early) with an error: plain failure, lost
			// response, 500, 429, 503 or timeout status
			if rapid.Bool().Draw(t, "ondryrun") {
				sc.Steps = append(sc.Steps, Step{Op: "faultDryRun", I: rapid.IntRange(0, 5).Draw(t, "ndry"), J: rapid.IntRange(0, 4).Draw(t, "dkind")}, GenReconcile(t, ctrls))
				continue
			}
			sc.Steps = append(sc.Steps, Step{Op: "fault", I: rapid.IntRange(0, 9).Draw(t, "ncall"), J: rapid.SampledFrom([]int{0, 1, 4, 5, 6, 7}).Draw(t, "fkind")}, GenReconcile(t, ctrls))
		case 0, 1, 2, 3, 4, 5:
			sc.Steps = append(sc.Steps, GenReconcile(t, ctrls))
		case 6:
			sc.Steps = append(sc.Steps, Step{Op: "widget", I: rapid.IntRange(0, 2).Draw(t, "w"), J: 1})
		case 7:
			sc.Steps = append(sc.Steps, Step{Op: "quiesce"})
		case 8:
			sc.Steps = append(sc.Steps, Step{Op: "tpForeign", I: rapid.IntRange(0, 15).Draw(t, "which")})
		default:
			sc.Steps = append(sc.Steps, Step{Op: "deleteSet", I: 0})
		}
	}
	// always finish with a teardown so rollout and teardown are both covered
	if rapid.Bool().Draw(t, "teardown") {
		sc.Steps = append(sc.Steps, Step{Op: "deleteSet", I: 0}, Step{Op: "quiesce"})
	}
	return sc
}

func TestC11(t *testing.T) {
	st := NewStats("C11", "engine", "scenario = one ObjectSet/ClusterObjectSet (local + same-cluster delegated phases) mixing valid objects with each violating kind at every position (unknown API, preset ownerReferences, foreign namespace, cluster-scoped kind with/without namespace, dry-run rejected, duplicates), pre-existing foreign objects, rollout then teardown; non-trivial = a phase with >=1 valid and >=1 violating object where the violating one is not first, or a duplicate")
	mk := func(sc *Scenario) (*Runner, *C11Monitor) {
		m := &C11Monitor{}
		return NewRunner(sc, m), m
	}
	CheckOrReplay(t, st, func(data []byte) (any, error) {
		return ReplayScenario(data, func(sc *Scenario) *Runner { r, _ := mk(sc); return r })
	}, func(rt *rapid.T) {
		sc := genC11(rt)
		r, m := mk(sc)
		err := r.Run()
		st.Count("passes", int64(len(r.W.Passes)))
		for c, n := range m.Classes {
			st.Count("class:"+c, int64(n))
		}
		st.Case(sc, r.Labels["c11-mixed-phase-violator-not-first"] || r.Labels["c11-duplicate"], r.LabelList()...)
		st.Report(rt, sc, err)
	})
}
