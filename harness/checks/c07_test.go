package checks

import (
	"testing"

	"pgregory.net/rapid"

	"package-operator.run/verifharness/engine"
)

func c07Extra(t *rapid.T, sc *Scenario) {
	switch rapid.IntRange(0, 5).Draw(t, "x") {
	case 0, 1:
		sc.Steps = append(sc.Steps, Step{Op: "fault", I: rapid.IntRange(0, 6).Draw(t, "ncall"), J: rapid.IntRange(0, 3).Draw(t, "fkind")})
	case 2:
		sc.Steps = append(sc.Steps, Step{Op: "restart"})
	case 3:
		if rapid.Bool().Draw(t, "insidepass") {
			sc.Steps = append(sc.Steps, Step{Op: "injectSync", I: rapid.IntRange(0, 3).Draw(t, "ncall")})
		} else {
			sc.Steps = append(sc.Steps, Step{Op: "sync"})
		}
	case 4:
		sc.Steps = append(sc.Steps, Step{Op: "editDeploy", I: rapid.IntRange(0, 4).Draw(t, "tmpl")})
		if rapid.Bool().Draw(t, "settle") {
			sc.Steps = append(sc.Steps, Step{Op: "quiesce"})
		}
	default:
		sc.Steps = append(sc.Steps, Step{Op: "historyLimit", I: rapid.IntRange(0, 4).Draw(t, "lim")})
	}
}

// genC07FirstPassFault: a directed family around the first pass of a freshly created revision: the deployment controller
// creates the ObjectSet, then an API call of that ObjectSet's own first reconcile (the reads of its previous revisions among
// them) is answered with an error, a lost response or a crash.
func genC07FirstPassFault(t *rapid.T, opts SetGenOpts) *Scenario {
	sc := &Scenario{Prop: "C07", CreationOrder: true}
	nt := rapid.IntRange(2, 4).Draw(t, "ntmpl")
	for i := 0; i < nt; i++ {
		s := GenSet(t, opts)
		s.Phases = append(s.Phases, PhaseSpec{Name: "px", Objs: []ObjSpec{{Pool: 3, Variant: i}}})
		sc.Tmpls = append(sc.Tmpls, s)
	}
	sc.Steps = append(sc.Steps, Step{Op: "createDeploy", I: 0}, Step{Op: "quiesce"})
	for i := 1; i < nt; i++ {
		sc.Steps = append(sc.Steps, Step{Op: "editDeploy", I: i}, Step{Op: "reconcile", Ctrl: engine.CtrlObjectDeployment})
		for k := rapid.IntRange(1, 2).Draw(t, "nfault"); k > 0; k-- {
			sc.Steps = append(sc.Steps, Step{Op: "fault", I: rapid.IntRange(0, 6).Draw(t, "ncall"), J: rapid.SampledFrom([]int{0, 0, 1, 2, 4, 5, 6, 7}).Draw(t, "fkind")},
				Step{Op: "reconcile", Ctrl: engine.CtrlObjectSet, I: -1}) // (creation order: the newest ObjectSet)
		}
		if rapid.Bool().Draw(t, "settle") {
			sc.Steps = append(sc.Steps, Step{Op: "quiesce"})
		} else {
			sc.Steps = append(sc.Steps, Step{Op: "reconcile", Ctrl: engine.CtrlObjectSet, I: -1}, Step{Op: "reconcile", Ctrl: engine.CtrlObjectDeployment})
		}
	}
	sc.Steps = append(sc.Steps, Step{Op: "quiesce"})
	return sc
}

func TestC07(t *testing.T) {
	st := NewStats("C07", "engine", "scenario = one ObjectDeployment over 2-4 templates (+ empty template) with template edits incl. reverts and no-op edits, pause toggles, API errors / lost responses / crashes on any call of any pass (incl. between ObjectSet create and status update), restarts, and a reader for the deployment controller that may not yet see ObjectSets created since the last sync; non-trivial = history with a revert to an earlier template, or a fault that fired, or an open lag window at a deployment pass")
	opts := SetGenOpts{AllowClass: false, AllowCluster: true, PoolSize: 4, MaxObjs: 2, MaxPhases: 2}
	mk := func(sc *Scenario) (*Runner, *C07Monitor) {
		m := &C07Monitor{}
		return NewRunner(sc, m), m
	}
	CheckOrReplay(t, st, func(data []byte) (any, error) {
		return ReplayScenario(data, func(sc *Scenario) *Runner { r, _ := mk(sc); return r })
	}, func(rt *rapid.T) {
		var sc *Scenario
		if rapid.IntRange(0, 5).Draw(rt, "family") == 0 {
			sc = genC07FirstPassFault(rt, opts)
			if rapid.IntRange(0, 3).Draw(rt, "clusterdep") == 0 {
				clusterFlavour(sc)
			}
		} else {
			sc = genDeployWorld(rt, "C07", opts, c07Extra)
			sc.Lag = rapid.IntRange(0, 2).Draw(rt, "lag") == 0
		}
		r, m := mk(sc)
		err := r.Run()
		st.Count("passes", int64(len(r.W.Passes)))
		st.Count("objectset_creates", int64(m.Creates))
		// revert: an editDeploy to a template index used earlier with a different one in between
		revert := false
		var seq []int
		for _, s := range sc.Steps {
			if s.Op == "createDeploy" || s.Op == "editDeploy" {
				seq = append(seq, mod(s.I, len(sc.Tmpls)))
			}
		}
		for i := 2; i < len(seq); i++ {
			for j := 0; j < i-1; j++ {
				if seq[j] == seq[i] && seq[i-1] != seq[i] {
					revert = true
				}
			}
		}
		if revert {
			r.Labels["template-revert"] = true
		}
		if sc.ClusterDep {
			r.Labels["cluster-scoped-deployment"] = true
		}
		st.Case(sc, m.Creates > 0 && (revert || r.Labels["fault-fired"] || r.Labels["lag-window-opened"]), r.LabelList()...)
		st.Report(rt, sc, err)
	})
}

// genC08Handover: a directed family around the handover itself: template T1 is T0 with other content variants and freshly drawn
// phase classes (so shared objects sit in local phases on one side and delegated phases on the other), the same probes;
// rollout of T0 without (or with late) readiness, edit to T1, then the deployment controller interleaved with few passes of the
// revisions' own controllers, so archival decisions are taken while the incoming revision has adopted little or nothing.
func genC08Handover(t *rapid.T, opts SetGenOpts) *Scenario {
	sc := &Scenario{Prop: "C08"}
	t0 := GenSet(t, opts)
	t1 := t0
	t1.Phases = nil
	for _, ph := range t0.Phases {
		p2 := ph
		p2.Class = rapid.SampledFrom([]string{"", engine.ClassDefault}).Draw(t, "class1")
		p2.Objs = nil
		for _, o := range ph.Objs {
			if rapid.IntRange(0, 5).Draw(t, "drop") == 0 {
				continue
			}
			o.Variant++
			p2.Objs = append(p2.Objs, o)
		}
		t1.Phases = append(t1.Phases, p2)
	}
	regress := len(t0.Phases) >= 2 && rapid.IntRange(0, 2).Draw(t, "regress") == 0
	if regress {
		// T1 keeps only the objects of T0's later phases; T0 rolls out completely, then its first phase regresses, so the
		// outgoing revision reports a shorter controllerOf than what it really controls
		t1.Phases[0].Objs = nil
	}
	sc.Tmpls = []SetSpec{t0, t1}
	sc.Steps = append(sc.Steps, Step{Op: "createDeploy", I: 0, J: rapid.SampledFrom([]int{0, 0, 1, 2, 11}).Draw(t, "limit")})
	all := []string{engine.CtrlObjectDeployment, engine.CtrlObjectSet, engine.CtrlObjectSetPhase}
	if rapid.Bool().Draw(t, "settle0") {
		sc.Steps = append(sc.Steps, Step{Op: "quiesce"})
	} else {
		for i := rapid.IntRange(2, 8).Draw(t, "roll0"); i > 0; i-- {
			sc.Steps = append(sc.Steps, GenReconcile(t, all))
		}
	}
	if regress || rapid.IntRange(0, 2).Draw(t, "ready0") == 0 {
		for w := 0; w < 4; w++ {
			sc.Steps = append(sc.Steps, Step{Op: "widget", I: w, J: 1}, Step{Op: "tpReady", I: w, On: true})
		}
		sc.Steps = append(sc.Steps, Step{Op: "quiesce"})
	}
	if regress {
		for _, o := range t0.Phases[0].Objs {
			sc.Steps = append(sc.Steps, Step{Op: "tpReady", I: o.Pool, On: false}, Step{Op: "tpDelete", I: o.Pool})
		}
		for i := rapid.IntRange(1, 4).Draw(t, "afterregress"); i > 0; i-- {
			sc.Steps = append(sc.Steps, GenReconcile(t, all))
		}
	}
	sc.Steps = append(sc.Steps, Step{Op: "editDeploy", I: 1})
	few := []string{engine.CtrlObjectDeployment, engine.CtrlObjectDeployment, engine.CtrlObjectDeployment, engine.CtrlObjectSet, engine.CtrlObjectSet, engine.CtrlObjectSetPhase}
	for i := rapid.IntRange(3, 16).Draw(t, "handover"); i > 0; i-- {
		switch rapid.IntRange(0, 9).Draw(t, "hk") {
		case 0:
			sc.Steps = append(sc.Steps, Step{Op: "widget", I: rapid.IntRange(0, 2).Draw(t, "w"), J: rapid.IntRange(0, len(WidgetStates)-1).Draw(t, "state")})
		case 1:
			sc.Steps = append(sc.Steps, Step{Op: "tpReady", I: rapid.IntRange(0, 3).Draw(t, "cm"), On: rapid.Bool().Draw(t, "on")})
		default:
			sc.Steps = append(sc.Steps, GenReconcile(t, few))
		}
	}
	sc.Steps = append(sc.Steps, Step{Op: "quiesce"})
	return sc
}

// genC08Prune: a directed family around history pruning: 3-5 revisions of templates without probes (every revision becomes
// Available once rolled out) under a generous history limit, so archived revisions pile up; around the last template edit
// the user lowers the limit and/or an API fault hits a call of the deployment controller, so the pass that archives the
// outgoing revision is also one that has to prune - with archived revisions ahead of the one it archives.
func genC08Prune(t *rapid.T, opts SetGenOpts) *Scenario {
	sc := &Scenario{Prop: "C08"}
	n := rapid.IntRange(3, 5).Draw(t, "nrev")
	for i := 0; i < n; i++ {
		s := GenSet(t, opts)
		s.Probes = nil
		// make the templates pairwise different whatever was drawn
		s.Phases = append(s.Phases, PhaseSpec{Name: "px", Objs: []ObjSpec{{Pool: 3, Variant: i}}})
		for pi := range s.Phases[:len(s.Phases)-1] {
			var keep []ObjSpec
			for _, o := range s.Phases[pi].Objs {
				if mod(o.Pool, engine.NativePoolSize) != 3 && o.Pool < engine.NativePoolSize {
					keep = append(keep, o)
				}
			}
			s.Phases[pi].Objs = keep
		}
		sc.Tmpls = append(sc.Tmpls, s)
	}
	sc.Steps = append(sc.Steps, Step{Op: "createDeploy", I: 0, J: rapid.SampledFrom([]int{0, 11, 5, 4}).Draw(t, "limit")}, Step{Op: "quiesce"})
	dep := []string{engine.CtrlObjectDeployment}
	all := []string{engine.CtrlObjectDeployment, engine.CtrlObjectDeployment, engine.CtrlObjectSet, engine.CtrlObjectSet, engine.CtrlObjectSetPhase}
	disturb := func() {
		switch rapid.IntRange(0, 3).Draw(t, "disturb") {
		case 0, 1:
			sc.Steps = append(sc.Steps, Step{Op: "historyLimit", I: rapid.IntRange(1, 3).Draw(t, "lim")})
		case 2:
			sc.Steps = append(sc.Steps, Step{Op: "fault", I: rapid.IntRange(0, 8).Draw(t, "ncall"), J: rapid.IntRange(0, 3).Draw(t, "fkind")}, GenReconcile(t, dep))
		default:
		}
	}
	for i := 1; i < n; i++ {
		sc.Steps = append(sc.Steps, Step{Op: "editDeploy", I: i})
		if i < n-1 {
			if rapid.IntRange(0, 3).Draw(t, "early") == 0 {
				disturb()
			}
			sc.Steps = append(sc.Steps, Step{Op: "quiesce"})
			continue
		}
		if rapid.Bool().Draw(t, "freeform") {
			for k := rapid.IntRange(2, 12).Draw(t, "last"); k > 0; k-- {
				if rapid.IntRange(0, 3).Draw(t, "d") == 0 {
					disturb()
				} else {
					sc.Steps = append(sc.Steps, GenReconcile(t, all))
				}
			}
			continue
		}
		// rounds of "deployment pass, then (most of) the revisions' own passes": the outgoing revision is paused in one round,
		// confirms it in the next, is archived in the one after; a disturbance lands right before one of the deployment passes
		for round := rapid.IntRange(3, 5).Draw(t, "rounds"); round > 0; round-- {
			if rapid.IntRange(0, 2).Draw(t, "d") == 0 {
				disturb()
			}
			sc.Steps = append(sc.Steps, Step{Op: "reconcile", Ctrl: engine.CtrlObjectDeployment})
			if rapid.IntRange(0, 3).Draw(t, "settleSets") > 0 {
				sc.Steps = append(sc.Steps, Step{Op: "settleSets"})
				continue
			}
			for set := 0; set < n; set++ {
				if rapid.IntRange(0, 5).Draw(t, "skip") == 0 {
					continue
				}
				sc.Steps = append(sc.Steps, Step{Op: "reconcile", Ctrl: engine.CtrlObjectSet, I: set}, Step{Op: "reconcile", Ctrl: engine.CtrlObjectSetPhase, I: rapid.IntRange(0, 5).Draw(t, "ph")})
			}
		}
	}
	sc.Steps = append(sc.Steps, Step{Op: "quiesce"})
	if rapid.Bool().Draw(t, "lateLimit") {
		sc.Steps = append(sc.Steps, Step{Op: "historyLimit", I: rapid.IntRange(1, 2).Draw(t, "lim")}, Step{Op: "quiesce"})
	}
	return sc
}

func TestC08(t *testing.T) {
	st := NewStats("C08", "engine", "scenario = one ObjectDeployment over 2-4 overlapping templates with probe-driven availability changes, all revisionHistoryLimit values, pause toggles on revisions, arbitrary interleaving of the deployment controller with the revisions' reconciles; non-trivial = an archival or prune happened")
	opts := SetGenOpts{AllowClass: true, AllowCluster: true, PoolSize: 4, MaxObjs: 3, MaxPhases: 2, CPs: []string{"", "", "", "Prevent", "IfNoController", "None"}}
	mk := func(sc *Scenario) (*Runner, *C08Monitor) {
		m := &C08Monitor{}
		// "adopted in place": the handover rules of C02 (only forward, one controller) are watched as well
		return NewRunner(sc, m, &C02Monitor{}), m
	}
	CheckOrReplay(t, st, func(data []byte) (any, error) {
		v, err := ReplayScenario(data, func(sc *Scenario) *Runner { r, _ := mk(sc); return r })
		return v, remapProp(err, "C08")
	}, func(rt *rapid.T) {
		var sc *Scenario
		family := "family-general"
		switch f := rapid.IntRange(0, 7).Draw(rt, "family"); {
		case f <= 1:
			sc, family = genC08Handover(rt, opts), "family-handover"
		case f == 2 || f == 3:
			sc, family = genC08Prune(rt, opts), "family-prune"
			if rapid.IntRange(0, 3).Draw(rt, "clusterdep") == 0 {
				clusterFlavour(sc)
			}
		default:
			sc = genDeployWorld(rt, "C08", opts, c09Extra)
		}
		r, m := mk(sc)
		r.Labels[family] = true
		if sc.ClusterDep {
			r.Labels["cluster-scoped-deployment"] = true
		}
		err := remapProp(r.Run(), "C08")
		st.Count("passes", int64(len(r.W.Passes)))
		st.Count("archivals", int64(m.Archivals))
		st.Count("prunes", int64(m.Prunes))
		st.Case(sc, m.Archivals+m.Prunes > 0, r.LabelList()...)
		st.Report(rt, sc, err)
	})
}
