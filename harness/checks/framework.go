// Package checks holds the per-property generated checks (rapid) over the engine.
package checks

import (
	"crypto/sha256"
	"encoding/hex"
	"encoding/json"
	"flag"
	"fmt"
	"os"
	"path/filepath"
	"sort"
	"strings"
	"sync"
	"testing"

	"pgregory.net/rapid"
)

var (
	flagReplay    = flag.String("verif.replay", "", "replay this scenario/input file instead of generating")
	flagStats     = flag.String("verif.stats", "", "write run statistics to this file")
	flagReplayDir = flag.String("verif.replaydir", "", "directory for replay files of violations")
	flagKnown     = flag.String("verif.known", "", "known_findings.json")
	flagScale     = flag.Int("verif.scale", 1, "size multiplier for exhaustive/enumerated parts (thorough tier)")
)

// Violation is a property violation found by a monitor/oracle.
type Violation struct {
	Prop string `json:"prop"`
	// Key is a normalised signature identifying the root cause class (matched against known findings).
	Key  string `json:"key"`
	What string `json:"what"`
}

func (v *Violation) Error() string { return fmt.Sprintf("%s [%s]: %s", v.Prop, v.Key, v.What) }

// Violf builds a violation.
func Violf(prop, key, format string, args ...any) *Violation {
	return &Violation{Prop: prop, Key: key, What: fmt.Sprintf(format, args...)}
}

// KnownFinding is one entry of known_findings.json.
type KnownFinding struct {
	Property string `json:"property"`
	Key      string `json:"key"`
	What     string `json:"what"`
	Status   string `json:"status"` // open | fixed
	Commit   string `json:"commit,omitempty"`
}

var (
	knownOnce sync.Once
	knownOpen map[string]KnownFinding
)

func loadKnown() {
	knownOnce.Do(func() {
		knownOpen = map[string]KnownFinding{}
		if *flagKnown == "" {
			return
		}
		b, err := os.ReadFile(*flagKnown)
		if err != nil {
			return
		}
		var doc struct {
			Findings []KnownFinding `json:"findings"`
		}
		if json.Unmarshal(b, &doc) != nil {
			return
		}
		for _, f := range doc.Findings {
			if f.Status == "open" {
				knownOpen[f.Property+"|"+f.Key] = f
			}
		}
	})
}

// knownEntry finds the open known finding a violation matches. A listed key of the form "*:<situation>" matches every
// violation key of that property ending in ":<situation>": the situation names the specific call site and history
// (e.g. the create-apply landing on an object somebody created meanwhile), the part before it is merely which of its
// consequences the monitor noticed first.
func knownEntry(v *Violation) (KnownFinding, bool) {
	loadKnown()
	if f, ok := knownOpen[v.Prop+"|"+v.Key]; ok {
		return f, true
	}
	for i := strings.Index(v.Key, ":"); i >= 0 && i < len(v.Key); {
		if f, ok := knownOpen[v.Prop+"|*"+v.Key[i:]]; ok {
			return f, true
		}
		j := strings.Index(v.Key[i+1:], ":")
		if j < 0 {
			break
		}
		i += 1 + j
	}
	return KnownFinding{}, false
}

// IsKnown reports whether a violation matches an open known finding.
func IsKnown(v *Violation) bool {
	_, ok := knownEntry(v)
	return ok
}

// Stats collects what a run covered. One per test function (property / sub-check).
type Stats struct {
	mu            sync.Mutex
	Prop          string            `json:"prop"`
	Part          string            `json:"part"`
	Rule          string            `json:"rule"`
	Evaluations   int               `json:"evaluations"`
	Nontrivial    map[string]bool   `json:"-"`
	NontrivialFPs []string          `json:"nontrivial_fps"`
	Labels        map[string]int    `json:"labels"`
	Samples       []any             `json:"samples"`
	ExcludedKnown map[string]int    `json:"excluded_known"`
	KnownWhat     map[string]string `json:"known_what"`
	Counters      map[string]int64  `json:"counters"`
	Exhaustive    bool              `json:"exhaustive"`
	SpaceSize     int64             `json:"space_size,omitempty"`
	Violations    []ViolationRec    `json:"violations"`
}

// ViolationRec is a reported (unknown) violation with its replay file.
type ViolationRec struct {
	Prop   string `json:"prop"`
	Key    string `json:"key"`
	What   string `json:"what"`
	Replay string `json:"replay"`
}

var allStats []*Stats
var allStatsMu sync.Mutex

// NewStats registers a stats collector.
func NewStats(prop, part, rule string) *Stats {
	s := &Stats{Prop: prop, Part: part, Rule: rule, Nontrivial: map[string]bool{}, Labels: map[string]int{},
		ExcludedKnown: map[string]int{}, KnownWhat: map[string]string{}, Counters: map[string]int64{}}
	allStatsMu.Lock()
	allStats = append(allStats, s)
	allStatsMu.Unlock()
	return s
}

// Fingerprint hashes a JSON-able value.
func Fingerprint(v any) string {
	b, _ := json.Marshal(v)
	h := sha256.Sum256(b)
	return hex.EncodeToString(h[:12])
}

// Case records one executed case.
func (s *Stats) Case(value any, nontrivial bool, labels ...string) {
	s.mu.Lock()
	defer s.mu.Unlock()
	s.Evaluations++
	for _, l := range labels {
		s.Labels[l]++
	}
	if nontrivial {
		fp := Fingerprint(value)
		if !s.Nontrivial[fp] {
			s.Nontrivial[fp] = true
			if len(s.Samples) < 3 {
				s.Samples = append(s.Samples, value)
			}
		}
	}
}

// Count adds to a named counter.
func (s *Stats) Count(name string, n int64) {
	s.mu.Lock()
	s.Counters[name] += n
	s.mu.Unlock()
}

// Known records an excluded known finding.
func (s *Stats) Known(v *Violation) {
	loadKnown()
	s.mu.Lock()
	f, _ := knownEntry(v)
	s.ExcludedKnown[f.Key]++
	s.KnownWhat[f.Key] = f.What
	s.mu.Unlock()
}

// WriteStats dumps all collectors (called from TestMain).
func WriteStats() {
	if *flagStats == "" {
		return
	}
	for _, s := range allStats {
		s.NontrivialFPs = s.NontrivialFPs[:0]
		for fp := range s.Nontrivial {
			s.NontrivialFPs = append(s.NontrivialFPs, fp)
		}
		sort.Strings(s.NontrivialFPs)
	}
	b, _ := json.MarshalIndent(allStats, "", " ")
	_ = os.WriteFile(*flagStats, b, 0o644)
}

// MarkCurrent records the case that is about to run in <stats file>.current.<pid>. It is for targets that can kill the
// process in a way Go cannot recover from (stack exhaustion through unbounded recursion): the driver turns the death of
// a worker into a violation whose replay is this file.
func MarkCurrent(value any) {
	if *flagStats == "" {
		return
	}
	b, _ := json.MarshalIndent(value, "", " ")
	_ = os.WriteFile(fmt.Sprintf("%s.current.%d", *flagStats, os.Getpid()), b, 0o644)
}

// SaveReplay writes a replay file for a violation and returns its path.
func SaveReplay(prop string, value any) string {
	dir := *flagReplayDir
	if dir == "" {
		dir = os.TempDir()
	}
	dir = filepath.Join(dir, prop)
	_ = os.MkdirAll(dir, 0o755)
	b, _ := json.MarshalIndent(value, "", " ")
	h := sha256.Sum256(b)
	p := filepath.Join(dir, hex.EncodeToString(h[:8])+".json")
	_ = os.WriteFile(p, b, 0o644)
	return p
}

// Report handles the outcome of one case: nil → ok; known finding → counted; otherwise the
// violation is saved (replay) and the rapid case fails. last-writer-wins gives the shrunk case.
func (s *Stats) Report(t interface {
	Fatalf(string, ...any)
	Helper()
}, replayValue any, err error) {
	if err == nil {
		return
	}
	v, ok := err.(*Violation)
	if !ok {
		// harness-internal error: not a property verdict
		t.Fatalf("HARNESS-ERROR: %v", err)
		return
	}
	if IsKnown(v) {
		s.Known(v)
		return
	}
	path := SaveReplay(v.Prop, replayValue)
	s.mu.Lock()
	// keep only the latest record per key (shrinking rewrites it)
	recs := s.Violations[:0]
	for _, r := range s.Violations {
		if r.Key != v.Key {
			recs = append(recs, r)
		} else if r.Replay != path {
			_ = os.Remove(r.Replay)
		}
	}
	s.Violations = append(recs, ViolationRec{Prop: v.Prop, Key: v.Key, What: v.What, Replay: path})
	s.mu.Unlock()
	t.Fatalf("VIOLATION-FOUND property=%s key=%s replay=%s :: %s", v.Prop, v.Key, path, v.What)
}

// CheckOrReplay runs prop under rapid, or replays a file through replayFn when -verif.replay is given.
func CheckOrReplay(t *testing.T, s *Stats, replayFn func(data []byte) (any, error), prop func(rt *rapid.T)) {
	if *flagReplay != "" {
		data, err := os.ReadFile(*flagReplay)
		if err != nil {
			t.Fatalf("HARNESS-ERROR: reading replay: %v", err)
		}
		val, err := replayFn(data)
		if err != nil {
			if v, ok := err.(*Violation); ok {
				if IsKnown(v) {
					s.Known(v)
					t.Logf("replay reproduces known finding %s", v.Key)
					return
				}
				s.mu.Lock()
				s.Violations = append(s.Violations, ViolationRec{Prop: v.Prop, Key: v.Key, What: v.What, Replay: *flagReplay})
				s.mu.Unlock()
				t.Fatalf("VIOLATION-FOUND property=%s key=%s replay=%s :: %s", v.Prop, v.Key, *flagReplay, v.What)
			}
			t.Fatalf("HARNESS-ERROR: %v", err)
		}
		s.Case(val, true, "replayed")
		return
	}
	rapid.Check(t, prop)
}
