package checks

import (
	"os"
	"testing"
)

func TestMain(m *testing.M) {
	code := m.Run()
	WriteStats()
	os.Exit(code)
}
