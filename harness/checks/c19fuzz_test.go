package checks

import (
	"archive/tar"
	"bytes"
	"context"
	"encoding/json"
	"os"
	"strings"
	"testing"

	metav1 "k8s.io/apimachinery/pkg/apis/meta/v1"
	"k8s.io/apimachinery/pkg/apis/meta/v1/unstructured"
	"pgregory.net/rapid"

	corev1alpha1 "package-operator.run/apis/core/v1alpha1"
	"package-operator.run/internal/probing"
)

// Native (coverage-guided) fuzz targets for C19; run by the thorough tier only. The oracle is inside the target
// (guard → Violation); a finding is written as a replay file of the matching rapid part and as a line in
// <stats file>.viol, because fuzz workers are separate processes.

var ctxBg = context.Background()

func fuzzReport(t *testing.T, value any, err error) {
	if err == nil {
		return
	}
	v, ok := err.(*Violation)
	if !ok {
		t.Fatalf("HARNESS-ERROR: %v", err)
	}
	if IsKnown(v) {
		return
	}
	path := SaveReplay(v.Prop, value)
	if *flagStats != "" {
		if f, e := os.OpenFile(*flagStats+".viol", os.O_APPEND|os.O_CREATE|os.O_WRONLY, 0o644); e == nil {
			b, _ := json.Marshal(ViolationRec{Prop: v.Prop, Key: v.Key, What: v.What, Replay: path})
			_, _ = f.Write(append(b, '\n'))
			_ = f.Close()
		}
	}
	t.Fatalf("VIOLATION-FOUND property=%s key=%s replay=%s :: %s", v.Prop, v.Key, path, v.What)
}

func tarOf(entries ...[2]string) []byte {
	var buf bytes.Buffer
	tw := tar.NewWriter(&buf)
	for _, e := range entries {
		_ = tw.WriteHeader(&tar.Header{Name: e[0], Mode: 0o644, Size: int64(len(e[1])), Typeflag: tar.TypeReg})
		_, _ = tw.Write([]byte(e[1]))
	}
	_ = tw.Close()
	return buf.Bytes()
}

func FuzzC19OCI(f *testing.F) {
	good := tarOf([2]string{"package/manifest.yaml", "a: b"}, [2]string{"package/x/y.yaml", "kind: X"})
	f.Add(good)
	f.Add(good[:len(good)/2])
	f.Add(good[:700])
	f.Add([]byte("not a tar"))
	f.Add([]byte{})
	f.Add(tarOf([2]string{"", "x"}, [2]string{"package/../../x", "x"}, [2]string{"other", "x"}))
	f.Fuzz(func(t *testing.T, data []byte) {
		if data == nil {
			data = []byte{}
		}
		c := &c19OCICase{Part: "oci", Raw: data}
		_, err := runC19OCI(c)
		fuzzReport(t, c, err)
	})
}

const fuzzManifest = `apiVersion: manifests.package-operator.run/v1alpha1
kind: PackageManifest
metadata:
  name: pkg-a
spec:
  scopes: [Namespaced]
  phases:
  - name: ph0
  - name: ph1
  availabilityProbes:
  - probes:
    - condition: {type: Available, status: "True"}
    selector:
      kind: {group: verif.example, kind: Widget}
  config:
    openAPIV3Schema:
      type: object
      properties:
        label: {type: string, default: x}
        flag: {type: boolean}
  filter:
    conditions:
    - name: c0
      expression: "config.flag == true"
    paths:
    - glob: "a/**"
      expression: "cond.c0"
test:
  template:
  - name: t1
    context:
      config: {label: l}
      package:
        metadata: {name: t, namespace: tns}
`

const fuzzObject = `apiVersion: verif.example/v1
kind: Widget
metadata:
  name: w
  annotations:
    package-operator.run/phase: ph0
    package-operator.run/condition-map: "Available => my/Available"
    package-operator.run/condition: "cond.c0"
    package-operator.run/collision-protection: IfNoController
spec:
  size: 1
---
apiVersion: v1
kind: ConfigMap
metadata:
  name: c
  annotations:
    package-operator.run/phase: ph1
`

const fuzzTemplate = `{{ define "hlp" }}x{{ end }}apiVersion: v1
kind: ConfigMap
metadata:
  name: t-{{ .package.metadata.name }}
  annotations:
    package-operator.run/phase: ph1
data:
  a: {{ .config.label | quote }}
  b: {{ include "hlp" . | b64enc }}
  c: {{ getFile "x.yaml" | sha256sum }}
`

func FuzzC19Files(f *testing.F) {
	f.Add([]byte(fuzzManifest), []byte(fuzzObject), []byte(fuzzTemplate))
	f.Add([]byte(fuzzManifest), []byte(""), []byte("{{ fail \"x\" }}"))
	f.Add([]byte("a: b"), []byte(fuzzObject), []byte(fuzzTemplate))
	f.Add([]byte(strings.Replace(fuzzManifest, "config.flag == true", "config.label", 1)), []byte(strings.Replace(fuzzObject, "cond.c0", "config.label", 1)), []byte("{{ cel \"config.label\" }}"))
	f.Add([]byte(fuzzManifest), []byte("metadata:\n  annotations:\n    package-operator.run/condition-map: \"\"\n"), []byte("{{ cel \"1 +\" }}"))
	f.Fuzz(func(t *testing.T, manifest, obj, tmpl []byte) {
		c := &c19FilesCase{Part: "pipeline", Files: map[string]string{"manifest.yaml": string(manifest), "x.yaml": string(obj), "a/t.yaml.gotmpl": string(tmpl)},
			Ctx: PkgCtx{Label: "alpha", HasLabel: true, KubeVersion: "v1.27.0", PkgName: "inst", PkgNS: "ns-a"}}
		_, err := runC19Pipeline(c)
		fuzzReport(t, c, err)
	})
}

type c19ProbeCase struct {
	Part   string `json:"part"`
	Probes string `json:"probes"`
	Object string `json:"object"`
}

func runC19Probe(c *c19ProbeCase) (bool, error) {
	var probes []corev1alpha1.ObjectSetProbe
	if json.Unmarshal([]byte(c.Probes), &probes) != nil {
		return false, nil
	}
	var obj map[string]any
	if json.Unmarshal([]byte(c.Object), &obj) != nil || obj == nil {
		return false, nil
	}
	probed := false
	err := guard("probing.Parse / Probe", func() {
		p, e := probing.Parse(ctxBg, probes)
		if e != nil {
			return
		}
		p.Probe(&unstructured.Unstructured{Object: obj})
		probed = true
	})
	return probed, err
}

func FuzzC19Probe(f *testing.F) {
	f.Add(`[{"probes":[{"condition":{"type":"Available","status":"True"}},{"fieldsEqual":{"fieldA":".spec.a","fieldB":".status.a"}},{"cel":{"rule":"self.status.x == 1","message":"m"}}],"selector":{"kind":{"group":"g","kind":"K"},"selector":{"matchLabels":{"a":"b"}}}}]`,
		`{"apiVersion":"g/v1","kind":"K","metadata":{"name":"x","generation":2,"labels":{"a":"b"}},"spec":{"a":1},"status":{"a":1,"observedGeneration":2,"conditions":[{"type":"Available","status":"True","observedGeneration":2}]}}`)
	f.Add(`[{"probes":[{"cel":{"rule":"self.status.conditions[0].x","message":""}}],"selector":{"kind":{"group":"","kind":"K"}}}]`, `{"kind":"K","status":{"conditions":{}}}`)
	f.Add(`[{"probes":[{}],"selector":{}}]`, `{"status":null}`)
	f.Fuzz(func(t *testing.T, probes, object string) {
		c := &c19ProbeCase{Part: "probe", Probes: probes, Object: object}
		_, err := runC19Probe(c)
		fuzzReport(t, c, err)
	})
}

// TestC19Probe is the rapid counterpart (and the replay vehicle) of FuzzC19Probe.
func TestC19Probe(t *testing.T) {
	st := NewStats("C19", "probe", "input = ObjectSetProbe list (JSON; condition / fieldsEqual with odd paths / CEL / empty probes, kind and label selectors) x object (JSON) with a generated status shape; target = probing.Parse + Probe; oracle = never panics; non-trivial = the probe list parsed and was evaluated on the object")
	CheckOrReplay(t, st, func(data []byte) (any, error) {
		var c c19ProbeCase
		if err := json.Unmarshal(data, &c); err != nil {
			return nil, err
		}
		_, err := runC19Probe(&c)
		return &c, err
	}, func(rt *rapid.T) {
		var probes []corev1alpha1.Probe
		for i := rapid.IntRange(0, 4).Draw(rt, "nprobes"); i > 0; i-- {
			probes = append(probes, c19Probes[rapid.IntRange(0, len(c19Probes)-1).Draw(rt, "probe")])
		}
		sel := corev1alpha1.ProbeSelector{}
		if rapid.IntRange(0, 3).Draw(rt, "kindsel") > 0 {
			sel.Kind = &corev1alpha1.PackageProbeKindSpec{Group: rapid.SampledFrom([]string{"g", ""}).Draw(rt, "group"), Kind: "K"}
		}
		if rapid.IntRange(0, 2).Draw(rt, "labelsel") == 0 {
			sel.Selector = &metav1.LabelSelector{MatchLabels: map[string]string{"a": rapid.SampledFrom([]string{"b", "", "not valid!"}).Draw(rt, "lv")}}
		}
		pb, _ := json.Marshal([]corev1alpha1.ObjectSetProbe{{Probes: probes, Selector: sel}})
		obj := map[string]any{"apiVersion": "g/v1", "kind": "K", "metadata": map[string]any{"name": "x", "generation": 1, "labels": map[string]any{"a": "b"}}, "spec": map[string]any{"size": 1}}
		if st := genStatusShape(rt); st != nil {
			obj["status"] = st
		}
		ob, _ := json.Marshal(obj)
		c := &c19ProbeCase{Part: "probe", Probes: string(pb), Object: string(ob)}
		ok, err := runC19Probe(c)
		st.Case(c, ok)
		st.Report(rt, c, err)
	})
}
