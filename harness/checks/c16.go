package checks

import (
	"encoding/json"
	"fmt"
	"strings"

	metav1 "k8s.io/apimachinery/pkg/apis/meta/v1"
	"k8s.io/apimachinery/pkg/runtime"
	"sigs.k8s.io/controller-runtime/pkg/client"

	corev1alpha1 "package-operator.run/apis/core/v1alpha1"
	"package-operator.run/internal/apis/manifests"
	"package-operator.run/internal/packages"

	"package-operator.run/verifharness/engine"
	"package-operator.run/verifharness/kubesim"
)

// PkgConfigs are the configuration variants scenarios draw from.
var PkgConfigs = []string{
	`{"label":"alpha","flag":true}`,
	`{"label":"beta-1","flag":false}`,
	`{"flag":true}`,
	`{"label":5}`,
	``,
}

// PkgEnvs are the environment variants.
var PkgEnvs = []PkgCtx{
	{KubeVersion: "v1.27.0"},
	{KubeVersion: "v1.20.0"},
	{KubeVersion: "v1.27.0", OpenShift: true},
}

func imageName(i int) string { return fmt.Sprintf("quay.io/verif/img-%d:v1", i) }

var pkgNames = []string{"inst", "inst2"}

func pkgKey(i int) kubesim.Key {
	return kubesim.Key{Group: engine.PKOGroup, Kind: "Package", Namespace: engine.NSMain, Name: pkgNames[mod(i, len(pkgNames))]}
}

// ctxFromPackage derives the reference render context from a stored Package object and the environment.
func ctxFromPackage(pkg map[string]any, env PkgCtx) (PkgCtx, string) {
	c := PkgCtx{PkgName: kubesim.MetaString(pkg, "name"), PkgNS: kubesim.MetaString(pkg, "namespace"), KubeVersion: env.KubeVersion, OpenShift: env.OpenShift}
	cfg := asMap(asMap(pkg["spec"])["config"])
	bad := ""
	if l, ok := cfg["label"]; ok {
		if s, isStr := l.(string); isStr {
			c.Label, c.HasLabel = s, true
		} else {
			bad = "config-wrong-type"
		}
	}
	if f, ok := cfg["flag"].(bool); ok {
		c.Flag = f
	} else {
		c.NoFlag = true
	}
	return c, bad
}

func kubeRangeMet(r, v string) bool {
	// generator ranges: ">=1.25.0" | "<1.25.0" | ">=1.28.0"
	var maj, min int
	fmt.Sscanf(strings.TrimPrefix(v, "v"), "%d.%d", &maj, &min)
	var op string
	var rmaj, rmin int
	if strings.HasPrefix(r, ">=") {
		op = ">="
		fmt.Sscanf(r[2:], "%d.%d", &rmaj, &rmin)
	} else {
		op = "<"
		fmt.Sscanf(r[1:], "%d.%d", &rmaj, &rmin)
	}
	ge := maj > rmaj || (maj == rmaj && min >= rmin)
	if op == ">=" {
		return ge
	}
	return !ge
}

// classifyPackage is the independent admissibility classifier: "" = admissible.
func classifyPackage(d *PkgDesc, c PkgCtx, cfgBad string, pullErr bool, otherSameManifest bool) string {
	switch {
	case pullErr || d == nil:
		return "pull-failure"
	case d.Broken == "no-manifest" || d.Broken == "two-manifests":
		return "load-failure"
	}
	hasNS := false
	for _, s := range d.Scopes {
		if s == "Namespaced" {
			hasNS = true
		}
	}
	switch {
	case d.RequireOpenShift && !c.OpenShift:
		return "constraint-unmet:platform"
	case d.KubeRange != "" && !kubeRangeMet(d.KubeRange, c.KubeVersion):
		return "constraint-unmet:version"
	case d.OpenShiftRange != "" && c.OpenShift && !kubeRangeMet(d.OpenShiftRange, "4.13.0"):
		// (on a cluster that is not OpenShift the constraint does not apply)
		return "constraint-unmet:version"
	case d.Unique && otherSameManifest:
		return "constraint-unmet:unique"
	case cfgBad != "":
		return cfgBad
	case d.ConfigRequired && !c.HasLabel:
		return "config-missing-required"
	case !hasNS:
		return "unsupported-scope"
	case d.Broken == "duplicate-object" && (len(d.Files) == 0 || len(d.Files[0].Objs) == 0):
		// nothing to duplicate: the package is valid
	case d.Broken != "":
		return "invalid:" + d.Broken
	}
	// a named CEL condition reading config.flag cannot be evaluated when the configuration has no such key
	if c.NoFlag {
		for _, cd := range d.Conds {
			if strings.Contains(cd.Expr, "config.flag") {
				return "cel-missing-config-key"
			}
		}
	}
	// templates referencing .config.label fail with missingkey=error when the label is absent
	if !c.HasLabel {
		for _, f := range d.Files {
			for _, o := range f.Objs {
				if f.Template && o.Tmpl != "" && o.Tmpl != "toJson" && o.Tmpl != "extra" {
					return "template-missing-config-key"
				}
			}
		}
	}
	return ""
}

// C16Monitor: only valid, admissible packages roll out; unchanged packages are left alone.
type C16Monitor struct {
	Env         *int              // index into PkgEnvs (shared with the runner)
	deployedFor map[string]string // package uid -> spec JSON for which unpackedHash was persisted
	deployedEnv map[string]int    // package uid -> environment variant in force when that happened
	// unrecorded: package uid -> a pass changed the deployment (template or slices) but did not get to persist the
	// unpacked hash for that spec (its status write failed or the pass ended in an error), and no later pass has
	unrecorded map[string]bool
	Classes     map[string]int
}

func specJSON(pkg map[string]any) string {
	b, _ := json.Marshal(pkg["spec"])
	return string(b) + "|" + kubesim.AnnotationsOf(pkg)["packages.package-operator.run/chunking-strategy"]
}

func inlineTemplate(r *Runner, dep map[string]any) []any {
	var out []any
	ns := kubesim.MetaString(dep, "namespace")
	for _, p := range asList(asMap(asMap(asMap(dep["spec"])["template"])["spec"])["phases"]) {
		pm := asMap(p)
		ph := map[string]any{"name": pm["name"]}
		if c := asStr(pm["class"]); c != "" {
			ph["class"] = c
		}
		var objs []any
		objs = append(objs, asList(pm["objects"])...)
		for _, s := range asList(pm["slices"]) {
			sl := r.W.Store.PeekNoCopy(kubesim.Key{Group: engine.PKOGroup, Kind: "ObjectSlice", Namespace: ns, Name: asStr(s)})
			if sl == nil {
				objs = append(objs, map[string]any{"missingSlice": s})
				continue
			}
			objs = append(objs, asList(sl["objects"])...)
		}
		ph["objects"] = objs
		out = append(out, ph)
	}
	return out
}

func (m *C16Monitor) AfterPass(r *Runner, pv *PassView) error {
	if pv.P.Controller == engine.CtrlPackage && pv.Owner != nil && pv.P.Crashed {
		// a pass that dies after writing the deployment has not recorded the hash of what it deployed either
		for _, c := range pv.Calls {
			if c.Actor == "pko" && c.IsWrite() && !c.DryRun && c.Changed() && (c.Key.Kind == "ObjectDeployment" || c.Key.Kind == "ObjectSlice") {
				if m.unrecorded == nil {
					m.unrecorded = map[string]bool{}
				}
				m.unrecorded[engine.UID(pv.Owner)] = true
				r.Labels["c16-deployment-written-but-hash-not-recorded"] = true
			}
		}
	}
	if pv.P.Controller != engine.CtrlPackage || pv.Owner == nil || pv.P.Crashed {
		return nil
	}
	if m.deployedFor == nil {
		m.deployedFor = map[string]string{}
		m.Classes = map[string]int{}
	}
	if OwnerDeleting(pv.Owner) {
		return nil
	}
	if p, _ := asMap(pv.Owner["spec"])["paused"].(bool); p {
		return nil
	}
	name := kubesim.MetaString(pv.Owner, "name")
	uid := engine.UID(pv.Owner)
	image := asStr(asMap(pv.Owner["spec"])["image"])
	var desc *PkgDesc
	for i := range r.Sc.Pkgs {
		if imageName(i) == image {
			desc = &r.Sc.Pkgs[i]
		}
	}
	pullErr := r.W.Puller.Errors[image] != ""
	env := PkgEnvs[mod(*m.Env, len(PkgEnvs))]
	ctx, cfgBad := ctxFromPackage(pv.Owner, env)
	other := false
	for _, k := range r.W.ListKeys(engine.PKOGroup, "Package") {
		if k.Name == name {
			continue
		}
		o := r.W.Store.PeekNoCopy(k)
		oi := asStr(asMap(o["spec"])["image"])
		for i := range r.Sc.Pkgs {
			if imageName(i) == oi && desc != nil && r.Sc.Pkgs[i].Name == desc.Name {
				other = true
			}
		}
	}
	depKey := kubesim.Key{Group: engine.PKOGroup, Kind: "ObjectDeployment", Namespace: engine.NSMain, Name: name}
	// writes of this pass that create or change the ObjectDeployment template / slices
	var depChange *kubesim.Call
	pulls := 0
	for _, c := range pv.Calls {
		if c.Actor != "pko" || !c.IsWrite() || c.DryRun || c.Err != "" {
			continue
		}
		if c.Key == depKey && c.Changed() {
			preT, _ := json.Marshal(asMap(asMap(c.Pre)["spec"])["template"])
			postT, _ := json.Marshal(asMap(asMap(c.Post)["spec"])["template"])
			if c.Pre == nil || string(preT) != string(postT) {
				depChange = c
			}
		}
		if c.Key.Kind == "ObjectSlice" && c.Changed() {
			depChange = c
		}
	}
	pulls = r.W.Puller.Pulls[image] - r.pullsBefore[image]
	unchanged := asStr(asMap(pv.Owner["status"])["unpackedHash"]) != "" && m.deployedFor[uid] == specJSON(pv.Owner)
	if unchanged {
		r.Labels["c16-unchanged-pass"] = true
		if pulls != 0 {
			return Violf("C16", "unchanged-package-repulled", "pass %d: Package %s is unchanged since it was unpacked but its image was pulled %d time(s)", pv.P.ID, name, pulls)
		}
		if depChange != nil {
			return Violf("C16", "unchanged-package-redeployed", "pass %d: Package %s is unchanged but %s on %s changed the deployment", pv.P.ID, name, depChange.Verb, depChange.Key)
		}
		return nil
	}
	if m.unrecorded == nil {
		m.unrecorded = map[string]bool{}
	}
	recorded := false
	for _, sw := range pv.StatusWrites {
		if asStr(asMap(asMap(sw.Body)["status"])["unpackedHash"]) != "" && engine.Conditions(asMap(sw.Body))["Unpacked"].Status == "True" {
			recorded = true
		}
	}
	if recorded {
		m.unrecorded[uid] = false
	} else if depChange != nil {
		m.unrecorded[uid] = true
		r.Labels["c16-deployment-written-but-hash-not-recorded"] = true
	}
	class := classifyPackage(desc, ctx, cfgBad, pullErr, other)
	if pulls > 0 {
		m.Classes[class]++
	}
	conds := map[string]engine.Cond{}
	persisted := false
	for _, sw := range pv.StatusWrites {
		conds = engine.Conditions(asMap(sw.Body))
		persisted = true
		if asStr(asMap(asMap(sw.Body)["status"])["unpackedHash"]) != "" && conds["Unpacked"].Status == "True" {
			m.deployedFor[uid] = specJSON(pv.Owner)
			if m.deployedEnv == nil {
				m.deployedEnv = map[string]int{}
			}
			m.deployedEnv[uid] = *m.Env
		}
	}
	if class != "" {
		r.Labels["c16-inadmissible"] = true
		if depChange != nil {
			return Violf("C16", "deployment-written-for-inadmissible-package:"+class,
				"pass %d: Package %s (image %s, class %s) is not admissible but %s on %s created/changed the deployment", pv.P.ID, name, image, class, depChange.Verb, depChange.Key)
		}
		if pulls == 0 && class != "pull-failure" {
			return nil
		}
		switch {
		case class == "pull-failure":
			if persisted && conds["Unpacked"].Status != "False" {
				return Violf("C16", "pull-failure-not-shown", "pass %d: pulling %s failed but the persisted Unpacked condition is %q", pv.P.ID, image, conds["Unpacked"].Status)
			}
			if !persisted && pv.P.Err == "" {
				return Violf("C16", "pull-failure-not-shown", "pass %d: pulling %s failed but no status was persisted", pv.P.ID, image)
			}
		case class == "load-failure" || strings.HasPrefix(class, "constraint-unmet"):
			if pv.P.Err == "" && (!persisted || conds["Invalid"].Status != "True") {
				return Violf("C16", "invalid-condition-missing:"+class,
					"pass %d: Package %s has class %s but the persisted Invalid condition is %q (persisted=%v)", pv.P.ID, name, class, conds["Invalid"].Status, persisted)
			}
		}
		return nil
	}
	r.Labels["c16-admissible"] = true
	if pv.P.Err != "" || !persisted || m.deployedFor[uid] != specJSON(pv.Owner) {
		return nil
	}
	// admissible and deployed by this pass: the template must equal a fresh reference render
	dep := r.W.Store.PeekNoCopy(depKey)
	if dep == nil {
		return Violf("C16", "admissible-package-not-deployed", "pass %d: Package %s is admissible and was marked unpacked but no ObjectDeployment exists", pv.P.ID, name)
	}
	got, _ := kubesim.Normalize(map[string]any{"p": inlineTemplate(r, dep)})
	want, _ := kubesim.Normalize(map[string]any{"p": desc.Expected(ctx)})
	gp, wp := got["p"], want["p"]
	if gp == nil {
		gp = []any{}
	}
	if wp == nil {
		wp = []any{}
	}
	if !kubesim.JSONEqual(gp, wp) {
		gb, _ := json.Marshal(gp)
		wb, _ := json.Marshal(wp)
		return Violf("C16", "deployment-template-differs-from-fresh-render", "pass %d: Package %s: ObjectDeployment template\n  %s\nreference render of the current spec\n  %s", pv.P.ID, name, trunc(string(gb), 1500), trunc(string(wb), 1500))
	}
	r.Labels["c16-template-verified"] = true
	return nil
}

// AfterStep: "a changed image, config or component always results in an ObjectDeployment template equal to a fresh render
// of the new spec": once the fair scheduler has run everything to quiescence, an admissible, unpaused Package whose image
// can be pulled has a deployment carrying the fresh render of its current spec - whatever was edited, paused, unpaused or
// failed on the way there.
func (m *C16Monitor) AfterStep(r *Runner, idx int, st Step) error {
	if st.Op != "quiesce" || !r.LastQuiesceOK || m.Env == nil {
		return nil
	}
	for _, k := range r.W.ListKeys(engine.PKOGroup, "Package") {
		pkg := r.W.Store.PeekNoCopy(k)
		if pkg == nil || OwnerDeleting(pkg) {
			continue
		}
		if p, _ := asMap(pkg["spec"])["paused"].(bool); p {
			continue
		}
		image := asStr(asMap(pkg["spec"])["image"])
		var desc *PkgDesc
		for i := range r.Sc.Pkgs {
			if imageName(i) == image {
				desc = &r.Sc.Pkgs[i]
			}
		}
		if desc == nil {
			continue
		}
		// an unchanged package is left alone also when the environment changes: the render that counts is the one under the
		// environment in force when the current spec was unpacked
		envIdx := *m.Env
		if uid := engine.UID(pkg); m.deployedFor[uid] == specJSON(pkg) {
			if e, ok := m.deployedEnv[uid]; ok {
				envIdx = e
			}
		}
		if envIdx != *m.Env {
			r.Labels["c16-environment-changed-since-unpack"] = true
			continue // (whether the package is admissible now is a question about the new environment; PKO has no reason to look)
		}
		env := PkgEnvs[mod(envIdx, len(PkgEnvs))]
		ctx, cfgBad := ctxFromPackage(pkg, env)
		other := false
		for _, ok := range r.W.ListKeys(engine.PKOGroup, "Package") {
			if ok.Name == k.Name {
				continue
			}
			oi := asStr(asMap(r.W.Store.PeekNoCopy(ok)["spec"])["image"])
			for i := range r.Sc.Pkgs {
				if imageName(i) == oi && r.Sc.Pkgs[i].Name == desc.Name {
					other = true
				}
			}
		}
		if classifyPackage(desc, ctx, cfgBad, r.W.Puller.Errors[image] != "", other) != "" {
			continue
		}
		r.Labels["c16-admissible-at-quiescence"] = true
		dep := r.W.Store.PeekNoCopy(kubesim.Key{Group: engine.PKOGroup, Kind: "ObjectDeployment", Namespace: k.Namespace, Name: k.Name})
		if dep == nil {
			return Violf("C16", "admissible-package-not-deployed-at-quiescence", "after step %d: Package %s (image %s) is admissible and not paused, everything is quiescent, but no ObjectDeployment exists", idx, k.Name, image)
		}
		got, _ := kubesim.Normalize(map[string]any{"p": inlineTemplate(r, dep)})
		want, _ := kubesim.Normalize(map[string]any{"p": desc.Expected(ctx)})
		gp, wp := got["p"], want["p"]
		if gp == nil {
			gp = []any{}
		}
		if wp == nil {
			wp = []any{}
		}
		if !kubesim.JSONEqual(gp, wp) {
			gb, _ := json.Marshal(gp)
			wb, _ := json.Marshal(wp)
			key := "deployment-template-stale-at-quiescence"
			if uid := engine.UID(pkg); m.unrecorded[uid] && m.deployedFor[uid] == specJSON(pkg) {
				// the spec was edited, the new render reached the deployment but the pass could not record it (status write
				// failed); then the spec was set back to the one whose hash is still recorded
				key += ":spec-reverted-after-deploy-whose-status-write-failed"
			}
			return Violf("C16", key, "after step %d: everything is quiescent but the ObjectDeployment template of Package %s\n  %s\nis not the render of its current spec\n  %s", idx, k.Name, trunc(string(gb), 1200), trunc(string(wb), 1200))
		}
	}
	return nil
}

func init() {
	extraOps["createPackage"] = func(r *Runner, st Step) error {
		r.W.ActAs("user", func(c client.Client) {
			p := &corev1alpha1.Package{}
			p.Name, p.Namespace = pkgNames[mod(st.K, len(pkgNames))], engine.NSMain
			p.Spec.Image = imageName(mod(st.I, max1(len(r.Sc.Pkgs))))
			if cfg := PkgConfigs[mod(st.J, len(PkgConfigs))]; cfg != "" {
				p.Spec.Config = &runtime.RawExtension{Raw: []byte(cfg)}
			}
			if st.S != "" {
				p.Annotations = map[string]string{"packages.package-operator.run/chunking-strategy": st.S}
			}
			_ = c.Create(r.W.Ctx, p)
		})
		return nil
	}
	extraOps["editPackage"] = func(r *Runner, st Step) error {
		r.W.ActAs("user", func(c client.Client) {
			p := &corev1alpha1.Package{}
			if c.Get(r.W.Ctx, client.ObjectKey{Namespace: engine.NSMain, Name: pkgNames[mod(st.K, len(pkgNames))]}, p) != nil {
				return
			}
			p.Spec.Image = imageName(mod(st.I, max1(len(r.Sc.Pkgs))))
			p.Spec.Config = nil
			if cfg := PkgConfigs[mod(st.J, len(PkgConfigs))]; cfg != "" {
				p.Spec.Config = &runtime.RawExtension{Raw: []byte(cfg)}
			}
			if c.Update(r.W.Ctx, p) == nil {
				r.Labels["package-edited"] = true
			}
		})
		return nil
	}
	extraOps["pausePackage"] = func(r *Runner, st Step) error {
		r.W.ActAs("user", func(c client.Client) {
			p := &corev1alpha1.Package{}
			if c.Get(r.W.Ctx, client.ObjectKey{Namespace: engine.NSMain, Name: pkgNames[mod(st.K, len(pkgNames))]}, p) != nil {
				return
			}
			p.Spec.Paused = st.On
			_ = c.Update(r.W.Ctx, p)
		})
		return nil
	}
	extraOps["pullError"] = func(r *Runner, st Step) error {
		img := imageName(mod(st.I, max1(len(r.Sc.Pkgs))))
		if st.On {
			r.W.Puller.Errors[img] = "registry unavailable"
		} else {
			delete(r.W.Puller.Errors, img)
		}
		return nil
	}
	extraOps["setEnv"] = func(r *Runner, st Step) error {
		r.EnvIdx = mod(st.I, len(PkgEnvs))
		r.applyEnv()
		return nil
	}
	// setHyperShift: PKO runs (On) or does not run on a HyperShift management cluster
	extraOps["setHyperShift"] = func(r *Runner, st Step) error {
		r.HyperShift = st.On
		r.applyEnv()
		return nil
	}
}

// applyEnv hands the current environment variant to every environment-aware controller (what the environment manager does
// on start and periodically).
func (r *Runner) applyEnv() {
	e := PkgEnvs[mod(r.EnvIdx, len(PkgEnvs))]
	env := &manifests.PackageEnvironment{Kubernetes: manifests.PackageEnvironmentKubernetes{Version: e.KubeVersion}}
	if e.OpenShift {
		env.OpenShift = &manifests.PackageEnvironmentOpenShift{Version: "4.13.0"}
	}
	if r.HyperShift {
		env.HyperShift = &manifests.PackageEnvironmentHyperShift{}
		r.Labels["hypershift-environment"] = true
	}
	r.W.SetEnv(env)
}

func max1(n int) int {
	if n < 1 {
		return 1
	}
	return n
}

// InstallImages registers the scenario's package images with the scripted puller.
func (r *Runner) InstallImages() {
	for i, d := range r.Sc.Pkgs {
		files := packages.Files{}
		for k, v := range d.Build(PkgCtx{}) {
			files[k] = v
		}
		r.W.Puller.Images[imageName(i)] = files
	}
}

var _ = metav1.Now
