package checks

import (
	"package-operator.run/verifharness/engine"
	"package-operator.run/verifharness/kubesim"
)

// PhaseView is a phase of an owner as the pass read it.
type PhaseView struct {
	Name   string
	Class  string
	Keys   []kubesim.Key
	Objs   []map[string]any // the object entries (with "object", "collisionProtection")
	Slices []string
}

func asMap(v any) map[string]any { m, _ := v.(map[string]any); return m }
func asList(v any) []any         { l, _ := v.([]any); return l }
func asStr(v any) string         { s, _ := v.(string); return s }
func asInt(v any) int64 {
	switch x := v.(type) {
	case int64:
		return x
	case float64:
		return int64(x)
	}
	return 0
}

func objKeyOf(store *kubesim.Store, entry map[string]any, ownerNS string) kubesim.Key {
	o := asMap(entry["object"])
	gvk := engine.GVKOf(o)
	ns := kubesim.MetaString(o, "namespace")
	if ns == "" {
		ns = ownerNS
	}
	k, _, ok := store.KeyFor(gvk, ns, kubesim.MetaString(o, "name"))
	if !ok {
		return kubesim.Key{Group: gvk.Group, Kind: gvk.Kind, Namespace: ns, Name: kubesim.MetaString(o, "name")}
	}
	return k
}

// OwnerPhases extracts the phases of an ObjectSet / ObjectSetPhase object (JSON form).
// Slices are resolved against the store (the slice content is immutable in our scenarios).
func OwnerPhases(store *kubesim.Store, owner map[string]any) []PhaseView {
	kind := asStr(owner["kind"])
	ns := kubesim.MetaString(owner, "namespace")
	spec := asMap(owner["spec"])
	var out []PhaseView
	switch kind {
	case "ObjectSetPhase", "ClusterObjectSetPhase":
		pv := PhaseView{Name: "", Class: kubesim.LabelsOf(owner)["package-operator.run/phase-class"]}
		for _, e := range asList(spec["objects"]) {
			em := asMap(e)
			pv.Objs = append(pv.Objs, em)
			pv.Keys = append(pv.Keys, objKeyOf(store, em, ns))
		}
		out = append(out, pv)
	default:
		sliceKind := "ObjectSlice"
		if kind == "ClusterObjectSet" {
			sliceKind = "ClusterObjectSlice"
		}
		for _, p := range asList(spec["phases"]) {
			pm := asMap(p)
			pv := PhaseView{Name: asStr(pm["name"]), Class: asStr(pm["class"])}
			for _, e := range asList(pm["objects"]) {
				em := asMap(e)
				pv.Objs = append(pv.Objs, em)
				pv.Keys = append(pv.Keys, objKeyOf(store, em, ns))
			}
			for _, s := range asList(pm["slices"]) {
				pv.Slices = append(pv.Slices, asStr(s))
				sl := store.PeekNoCopy(kubesim.Key{Group: engine.PKOGroup, Kind: sliceKind, Namespace: ns, Name: asStr(s)})
				for _, e := range asList(sl["objects"]) {
					em := asMap(e)
					pv.Objs = append(pv.Objs, em)
					pv.Keys = append(pv.Keys, objKeyOf(store, em, ns))
				}
			}
			out = append(out, pv)
		}
	}
	return out
}

// OwnerRevision returns the revision of an ObjectSet (status.revision) or ObjectSetPhase (spec.revision).
func OwnerRevision(owner map[string]any) int64 {
	switch asStr(owner["kind"]) {
	case "ObjectSetPhase", "ClusterObjectSetPhase":
		return asInt(asMap(owner["spec"])["revision"])
	}
	return asInt(asMap(owner["status"])["revision"])
}

// OwnerPaused / Archived / Deleting as read.
func OwnerPaused(owner map[string]any) bool {
	sp := asMap(owner["spec"])
	switch asStr(owner["kind"]) {
	case "ObjectSetPhase", "ClusterObjectSetPhase":
		b, _ := sp["paused"].(bool)
		return b
	}
	return asStr(sp["lifecycleState"]) == "Paused"
}

func OwnerArchived(owner map[string]any) bool {
	return asStr(asMap(owner["spec"])["lifecycleState"]) == "Archived"
}

func OwnerDeleting(owner map[string]any) bool {
	return kubesim.MetaString(owner, "deletionTimestamp") != ""
}

// IsControlledBy reports whether obj's controller ownerReference points at owner (same group, kind, name, uid).
func IsControlledBy(obj, owner map[string]any) bool {
	cr, ok := engine.ControllerRef(obj)
	if !ok {
		return false
	}
	return refMatches(cr, owner)
}

func refMatches(r engine.Ref, owner map[string]any) bool {
	og := engine.GVKOf(owner)
	rg := engine.GroupOfAPIVersion(r.APIVersion)
	return rg == og.Group && r.Kind == og.Kind && r.Name == kubesim.MetaString(owner, "name") && r.UID == engine.UID(owner)
}

// IsOwnedBy reports whether any ownerReference of obj points at owner.
func IsOwnedBy(obj, owner map[string]any) bool {
	for _, r := range engine.OwnerRefs(obj) {
		if refMatches(r, owner) {
			return true
		}
	}
	return false
}

// OwnerRevisionInPass is the revision the pass works with: an ObjectSet read with status.revision 0
// gets its revision assigned by the pass itself (1 without previous revisions, otherwise the value
// the pass persisted through a status update before reconciling phases).
func OwnerRevisionInPass(pv *PassView) int64 {
	rev := OwnerRevision(pv.Owner)
	if rev != 0 {
		return rev
	}
	switch asStr(pv.Owner["kind"]) {
	case "ObjectSetPhase", "ClusterObjectSetPhase":
		return rev
	}
	if len(asList(asMap(pv.Owner["spec"])["previous"])) == 0 {
		return 1
	}
	for _, c := range pv.Calls {
		if c.Actor == "pko" && c.Verb == "update-status" && c.Key == pv.OwnerKey && c.Err == "" {
			if v := asInt(asMap(asMap(c.Body)["status"])["revision"]); v != 0 {
				return v
			}
		}
	}
	return 0
}
