package checks

import (
	"testing"

	"pgregory.net/rapid"

	"package-operator.run/verifharness/engine"
)

func c06Extra(t *rapid.T, sc *Scenario) {
	switch rapid.IntRange(0, 9).Draw(t, "x") {
	case 0, 1:
		sc.Steps = append(sc.Steps, Step{Op: "widget", I: rapid.IntRange(0, 2).Draw(t, "w"), J: rapid.IntRange(0, len(WidgetStates)-1).Draw(t, "state")})
	case 2:
		sc.Steps = append(sc.Steps, Step{Op: "tpReady", I: rapid.IntRange(0, 3).Draw(t, "cm"), On: rapid.Bool().Draw(t, "on")})
	case 3:
		sc.Steps = append(sc.Steps, Step{Op: "restart"})
	case 4:
		sc.Steps = append(sc.Steps, Step{Op: "fault", I: rapid.IntRange(0, 14).Draw(t, "ncall"), J: rapid.IntRange(0, 3).Draw(t, "fkind")})
	case 5:
		sc.Steps = append(sc.Steps, Step{Op: "injectOwnerEdit", I: rapid.IntRange(0, 13).Draw(t, "ncall")})
	default:
		lifecycleSteps(t, sc)
	}
}

func TestC06(t *testing.T) {
	st := NewStats("C06", "engine", "scenario = chains of 1-3 revisions (local/delegated phases) with rollout, handover, probe regressions (workload status changes), pause, archival, deletion, restarts, API faults and user spec edits injected between a pass's read and its status write; every successful status write is compared with what the same pass observed; non-trivial = a status write with Available=True happened and (a handover or a pass after Archived=True or an in-pass owner edit) occurred")
	opts := SetGenOpts{AllowClass: true, Classes: []string{engine.ClassDefault}, CPs: []string{"", "", "IfNoController", "None"}, PoolSize: 5, MaxObjs: 2, MaxPhases: 3, ChainBias: true}
	mk := func(sc *Scenario) (*Runner, *C06Monitor, *C02Monitor) {
		m := &C06Monitor{}
		h := &C02Monitor{} // only used to label handovers (its verdicts belong to C02)
		return NewRunner(sc, m), m, h
	}
	CheckOrReplay(t, st, func(data []byte) (any, error) {
		return ReplayScenario(data, func(sc *Scenario) *Runner { r, _, _ := mk(sc); return r })
	}, func(rt *rapid.T) {
		sc := genChainWorldTP(rt, "C06", opts, c06Extra, false)
		r, m, _ := mk(sc)
		err := r.Run()
		st.Count("passes", int64(len(r.W.Passes)))
		st.Count("status_writes_checked", int64(m.StatusWrites))
		st.Count("error_path_status_writes", int64(m.ErrorPathWrites))
		handover := false
		for _, c := range r.W.Store.Trace {
			if c.Actor == "pko" && c.Pre != nil && c.Post != nil && c.Key.Group != engine.PKOGroup && c.Changed() {
				a, aok := engine.ControllerRef(c.Pre)
				b, bok := engine.ControllerRef(c.Post)
				if aok && bok && a.UID != b.UID {
					handover = true
				}
			}
		}
		if handover {
			r.Labels["handover"] = true
		}
		nt := r.Labels["c06-available-true-written"] && (handover || r.Labels["c06-pass-after-archived"] || r.Labels["owner-edited-in-pass"])
		st.Case(sc, nt, r.LabelList()...)
		st.Report(rt, sc, err)
	})
}
