package checks

import (
	"testing"

	"pgregory.net/rapid"

	"package-operator.run/verifharness/engine"
	"package-operator.run/verifharness/refmodel"
)

func c06Extra(t *rapid.T, sc *Scenario) {
	switch rapid.IntRange(0, 9).Draw(t, "x") {
	case 0, 1:
		sc.Steps = append(sc.Steps, Step{Op: "widget", I: rapid.IntRange(0, 2).Draw(t, "w"), J: rapid.IntRange(0, len(WidgetStates)-1).Draw(t, "state")})
	case 2:
		sc.Steps = append(sc.Steps, Step{Op: "tpReady", I: rapid.IntRange(0, 3).Draw(t, "cm"), On: rapid.Bool().Draw(t, "on")})
	case 3:
		sc.Steps = append(sc.Steps, Step{Op: "restart"})
	case 4:
		sc.Steps = append(sc.Steps, Step{Op: "fault", I: rapid.IntRange(0, 14).Draw(t, "ncall"), J: rapid.IntRange(0, 3).Draw(t, "fkind")})
	case 5:
		sc.Steps = append(sc.Steps, Step{Op: "injectOwnerEdit", I: rapid.IntRange(0, 13).Draw(t, "ncall")})
	default:
		lifecycleSteps(t, sc)
	}
}

// genC06Namesakes: a directed family for cluster-scoped owners: 2-3 ClusterObjectSet revisions that list the same pool
// object twice, once per namespace (namesakes), in different phases; the successor is usually held in an early phase by a
// probe, so the handover stays partial while the predecessor keeps reconciling.
func genC06Namesakes(t *rapid.T) *Scenario {
	sc := &Scenario{Prop: "C06"}
	n := rapid.IntRange(2, 3).Draw(t, "nrev")
	pool := rapid.IntRange(0, 3).Draw(t, "pool")
	ctrls := []string{engine.CtrlClusterObjectSet, engine.CtrlClusterObjectSet, engine.CtrlClusterObjectSetPhase}
	for i := 0; i < n; i++ {
		a := ObjSpec{Pool: pool, Variant: i}
		b := ObjSpec{Pool: pool, Variant: i, Special: "nsb"}
		if rapid.Bool().Draw(t, "swap") {
			a, b = b, a
		}
		class := func() string {
			return rapid.SampledFrom([]string{"", "", engine.ClassDefault}).Draw(t, "class")
		}
		set := SetSpec{Cluster: true}
		switch rapid.IntRange(0, 3).Draw(t, "layout") {
		case 0:
			set.Phases = []PhaseSpec{{Name: "p0", Class: class(), Objs: []ObjSpec{a, b}}}
		case 1:
			set.Phases = []PhaseSpec{{Name: "p0", Class: class(), Objs: []ObjSpec{a}}, {Name: "p1", Class: class(), Objs: []ObjSpec{{Pool: pool + 1, Variant: i}}}, {Name: "p2", Class: class(), Objs: []ObjSpec{b}}}
		default:
			set.Phases = []PhaseSpec{{Name: "p0", Class: class(), Objs: []ObjSpec{a}}, {Name: "p1", Class: class(), Objs: []ObjSpec{b}}}
		}
		if i > 0 && rapid.IntRange(0, 3).Draw(t, "gated") > 0 {
			set.Probes = GenProbes(t)
		}
		for j := 0; j < i; j++ {
			set.Previous = append(set.Previous, j)
		}
		sc.Steps = append(sc.Steps, Step{Op: "createSet", Set: &set})
		if i == 0 || rapid.Bool().Draw(t, "settle") {
			sc.Steps = append(sc.Steps, Step{Op: "quiesce"})
		}
		for k := rapid.IntRange(0, 6).Draw(t, "nsteps"); k > 0; k-- {
			if rapid.IntRange(0, 3).Draw(t, "x") == 0 {
				c06Extra(t, sc)
			} else {
				sc.Steps = append(sc.Steps, GenReconcile(t, ctrls))
			}
		}
	}
	sc.Steps = append(sc.Steps, Step{Op: "quiesce"})
	return sc
}

// genC06SpecChange: a directed family: workloads (Widgets) with probes on their reported status are rolled out and become
// ready; then a pass changes their spec - a successor revision with other content, or the repair of a third party's edit -
// so the status the pass read no longer speaks about the object it has just written.
func genC06SpecChange(t *rapid.T) *Scenario {
	sc := &Scenario{Prop: "C06"}
	canned := CannedProbes()
	nw := rapid.IntRange(1, 2).Draw(t, "nwidgets")
	s0 := SetSpec{Probes: []refmodel.RObjectSetProbe{canned[rapid.SampledFrom([]int{0, 0, 1, 5}).Draw(t, "probe")]}}
	ph := PhaseSpec{Name: "p0", Class: rapid.SampledFrom([]string{"", "", engine.ClassDefault}).Draw(t, "class")}
	for w := 0; w < nw; w++ {
		ph.Objs = append(ph.Objs, ObjSpec{Pool: 4 + w})
	}
	s0.Phases = []PhaseSpec{ph}
	if rapid.Bool().Draw(t, "second") {
		s0.Phases = append(s0.Phases, PhaseSpec{Name: "p1", Objs: []ObjSpec{{Pool: rapid.IntRange(0, 2).Draw(t, "cm")}}})
	}
	sc.Steps = append(sc.Steps, Step{Op: "createSet", Set: &s0}, Step{Op: "quiesce"})
	for w := 0; w < 3; w++ {
		sc.Steps = append(sc.Steps, Step{Op: "widget", I: w, J: 1})
	}
	sc.Steps = append(sc.Steps, Step{Op: "quiesce"})
	ctrls := []string{engine.CtrlObjectSet, engine.CtrlObjectSet, engine.CtrlObjectSetPhase}
	if rapid.Bool().Draw(t, "successor") {
		s1 := s0
		s1.Phases = nil
		for _, p := range s0.Phases {
			p2 := p
			p2.Objs = nil
			for _, o := range p.Objs {
				o.Variant++
				p2.Objs = append(p2.Objs, o)
			}
			s1.Phases = append(s1.Phases, p2)
		}
		s1.Previous = []int{0}
		sc.Steps = append(sc.Steps, Step{Op: "createSet", Set: &s1})
	} else {
		sc.Steps = append(sc.Steps, Step{Op: "tpEdit", I: 4 + rapid.IntRange(0, nw-1).Draw(t, "edited")})
	}
	for i := rapid.IntRange(1, 6).Draw(t, "nrec"); i > 0; i-- {
		if rapid.IntRange(0, 4).Draw(t, "x") == 0 {
			c06Extra(t, sc)
		} else {
			sc.Steps = append(sc.Steps, GenReconcile(t, ctrls))
		}
	}
	sc.Steps = append(sc.Steps, Step{Op: "quiesce"})
	return sc
}

func TestC06(t *testing.T) {
	st := NewStats("C06", "engine", "scenario = chains of 1-3 revisions (local/delegated phases) with rollout, handover, probe regressions (workload status changes), pause, archival, deletion, restarts, API faults and user spec edits injected between a pass's read and its status write; every successful status write is compared with what the same pass observed; non-trivial = a status write with Available=True happened and (a handover or a pass after Archived=True or an in-pass owner edit) occurred")
	opts := SetGenOpts{AllowClass: true, Classes: []string{engine.ClassDefault}, CPs: []string{"", "", "IfNoController", "None"}, PoolSize: 5, MaxObjs: 2, MaxPhases: 3, ChainBias: true}
	mk := func(sc *Scenario) (*Runner, *C06Monitor, *C02Monitor) {
		m := &C06Monitor{}
		h := &C02Monitor{} // only used to label handovers (its verdicts belong to C02)
		return NewRunner(sc, m), m, h
	}
	CheckOrReplay(t, st, func(data []byte) (any, error) {
		return ReplayScenario(data, func(sc *Scenario) *Runner { r, _, _ := mk(sc); return r })
	}, func(rt *rapid.T) {
		var sc *Scenario
		if f := rapid.IntRange(0, 7).Draw(rt, "family"); f == 0 {
			sc = genC06Namesakes(rt)
		} else if f == 1 {
			sc = genC06SpecChange(rt)
		} else {
			sc = genChainWorldTP(rt, "C06", opts, c06Extra, false)
		}
		r, m, _ := mk(sc)
		err := r.Run()
		st.Count("passes", int64(len(r.W.Passes)))
		st.Count("status_writes_checked", int64(m.StatusWrites))
		st.Count("error_path_status_writes", int64(m.ErrorPathWrites))
		handover := false
		for _, c := range r.W.Store.Trace {
			if c.Actor == "pko" && c.Pre != nil && c.Post != nil && c.Key.Group != engine.PKOGroup && c.Changed() {
				a, aok := engine.ControllerRef(c.Pre)
				b, bok := engine.ControllerRef(c.Post)
				if aok && bok && a.UID != b.UID {
					handover = true
				}
			}
		}
		if handover {
			r.Labels["handover"] = true
		}
		for _, st := range sc.Steps {
			if st.Op == "createSet" && st.Set != nil && st.Set.Cluster {
				r.Labels["family-cluster-namesakes"] = true
			}
		}
		nt := r.Labels["c06-available-true-written"] && (handover || r.Labels["c06-pass-after-archived"] || r.Labels["owner-edited-in-pass"])
		st.Case(sc, nt, r.LabelList()...)
		st.Report(rt, sc, err)
	})
}
