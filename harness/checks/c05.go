package checks

import (
	"strings"

	"package-operator.run/internal/constants"

	"package-operator.run/verifharness/engine"
	"package-operator.run/verifharness/kubesim"
)

// C05Monitor: deletes hit only objects PKO controls, pinned to the inspected version; co-owned
// objects only lose PKO's own owner reference and the cache label; orphan deletion deletes nothing.
type C05Monitor struct {
	Deletes int
}

func withoutOwner(obj map[string]any, owner map[string]any) []engine.Ref {
	var out []engine.Ref
	for _, rf := range engine.OwnerRefs(obj) {
		if refMatches(rf, owner) {
			continue
		}
		out = append(out, rf)
	}
	return out
}

func refsEqual(a, b []engine.Ref) bool {
	if len(a) != len(b) {
		return false
	}
	// order is not significant in ownerReferences
	cnt := map[engine.Ref]int{}
	for _, x := range a {
		cnt[x]++
	}
	for _, x := range b {
		cnt[x]--
	}
	for _, n := range cnt {
		if n != 0 {
			return false
		}
	}
	return true
}

// strippedForCompare removes the fields a co-owner cleanup may legitimately change.
func strippedForCompare(o map[string]any) map[string]any {
	c := kubesim.DeepCopyJSON(o)
	md := asMap(c["metadata"])
	delete(md, "ownerReferences")
	delete(md, "resourceVersion")
	if l := asMap(md["labels"]); l != nil {
		delete(l, constants.DynamicCacheLabel)
		if len(l) == 0 {
			delete(md, "labels")
		}
	}
	return c
}

func (m *C05Monitor) AfterPass(r *Runner, pv *PassView) error {
	if !isSetController(pv.P.Controller) && !isPhaseController(pv.P.Controller) {
		return nil
	}
	if pv.Owner == nil || (!OwnerDeleting(pv.Owner) && !OwnerArchived(pv.Owner)) {
		return nil
	}
	annot := pv.P.Controller == engine.CtrlRemotePhase
	ownerID := OwnerIDOf(pv.Owner)
	orphan := hasFinalizer(pv.Owner, "orphan")
	lastRead := map[kubesim.Key]map[string]any{}
	for _, c := range pv.Calls {
		if c.Actor != "pko" {
			continue
		}
		if c.Key.Group == engine.PKOGroup {
			// "deleted with orphan propagation: nothing is deleted at all" includes the ObjectSetPhase of a delegated phase:
			// deleting it makes the phase controller (which sees no orphan finalizer on the phase) delete the phase's objects
			// "deletes only what it controls" holds for PKO's own intermediate objects too: an ObjectSetPhase that (no longer)
			// has this ObjectSet as its controller - orphaned by the garbage collector, or belonging to another ObjectSet whose
			// name + phase name spell the same - is not this ObjectSet's to delete; its controller would tear down its objects
			if c.Verb == "delete" && !c.DryRun && c.Err == "" && strings.HasSuffix(c.Key.Kind, "ObjectSetPhase") && c.Pre != nil && !ControlledByID(c.Pre, ownerID, false) {
				return Violf("C05", "delete-of-uncontrolled-phase-object",
					"pass %d: %s %s deleted %s, which it does not control (owners %v)", pv.P.ID, ownerID.Kind, ownerID.Name, c.Key, OwnersOf(c.Pre, false))
			}
			if orphan && c.Verb == "delete" && !c.DryRun && c.Key != pv.OwnerKey {
				return Violf("C05", "write-during-orphan-deletion",
					"pass %d: %s is being deleted with orphan propagation but PKO issued %s on %s", pv.P.ID, ownerID.Name, c.Verb, c.Key)
			}
			continue
		}
		if c.Verb == "get" && c.Resp != nil {
			lastRead[c.Key] = c.Resp
			continue
		}
		if !c.IsWrite() || c.DryRun {
			continue
		}
		if orphan {
			return Violf("C05", "write-during-orphan-deletion",
				"pass %d: %s is being deleted with orphan propagation but PKO issued %s on %s", pv.P.ID, ownerID.Name, c.Verb, c.Key)
		}
		if c.Verb == "delete" {
			m.Deletes++
			read := lastRead[c.Key]
			if c.PreUID == nil || c.PreRV == nil {
				return Violf("C05", "delete-without-preconditions", "pass %d: delete of %s carries uid=%v resourceVersion=%v preconditions", pv.P.ID, c.Key, c.PreUID != nil, c.PreRV != nil)
			}
			if read == nil {
				return Violf("C05", "delete-without-inspection", "pass %d: delete of %s was not preceded by a read in the same pass", pv.P.ID, c.Key)
			}
			if *c.PreUID != engine.UID(read) || *c.PreRV != engine.RVOf(read) {
				return Violf("C05", "delete-preconditions-not-inspected-version",
					"pass %d: delete of %s is conditioned on uid=%s rv=%s but the inspected version was uid=%s rv=%s", pv.P.ID, c.Key, *c.PreUID, *c.PreRV, engine.UID(read), engine.RVOf(read))
			}
			if !ControlledByID(read, ownerID, annot) {
				return Violf("C05", "delete-of-uncontrolled-object",
					"pass %d: %s %s issued a delete for %s although the inspected version shows owners %v", pv.P.ID, ownerID.Kind, ownerID.Name, c.Key, OwnersOf(read, annot))
			}
			if c.Pre != nil && (engine.UID(c.Pre) != engine.UID(read) || engine.RVOf(c.Pre) != engine.RVOf(read)) {
				r.Labels["c05-changed-between-read-and-delete"] = true
				if c.Err == "" || (c.Post == nil) {
					return Violf("C05", "changed-object-did-not-survive",
						"pass %d: %s was changed between PKO's read (uid=%s rv=%s) and its delete (stored uid=%s rv=%s) but the delete went through", pv.P.ID, c.Key, engine.UID(read), engine.RVOf(read), engine.UID(c.Pre), engine.RVOf(c.Pre))
				}
			}
			if c.Err == "" && c.Pre != nil && !ControlledByID(c.Pre, ownerID, annot) {
				return Violf("C05", "deleted-while-not-controller",
					"pass %d: delete of %s succeeded while its owners were %v", pv.P.ID, c.Key, OwnersOf(c.Pre, annot))
			}
			continue
		}
		// any other write during teardown: only the co-owner cleanup is allowed
		if read := lastRead[c.Key]; read != nil && c.Pre != nil && (engine.RVOf(read) != engine.RVOf(c.Pre) || engine.UID(read) != engine.UID(c.Pre)) {
			r.Labels["c05-changed-between-read-and-patch"] = true
		}
		if c.Err != "" || c.Pre == nil || c.Post == nil {
			if c.Pre == nil && c.Post != nil {
				return Violf("C05", "create-during-teardown", "pass %d: teardown of %s created %s", pv.P.ID, ownerID.Name, c.Key)
			}
			continue
		}
		if !c.Changed() {
			continue
		}
		if read := lastRead[c.Key]; read != nil && (engine.RVOf(read) != engine.RVOf(c.Pre) || engine.UID(read) != engine.UID(c.Pre)) {
			r.Labels["c05-changed-between-read-and-patch"] = true
		}
		// "objects owned by others are not touched": the co-owner cleanup (own reference + cache label) is only for
		// objects the owner in teardown has a reference on
		isOwner := false
		for _, o := range OwnersOf(c.Pre, annot) {
			if o.UID == ownerID.UID {
				isOwner = true
			}
		}
		if !isOwner {
			r.Labels["c05-write-on-object-without-own-reference"] = true
			return Violf("C05", "teardown-touched-object-of-others",
				"pass %d: teardown of %s %s changed %s, on which it has no owner reference (owners %v): %s", pv.P.ID, ownerID.Kind, ownerID.Name, c.Key, OwnersOf(c.Pre, annot), trunc(diffSummary(c.Pre, c.Post), 300))
		}
		if !kubesim.JSONEqual(strippedForCompare(c.Pre), strippedForCompare(c.Post)) {
			return Violf("C05", "teardown-modified-co-owned-object",
				"pass %d: teardown of %s changed %s beyond its own owner reference and the cache label", pv.P.ID, ownerID.Name, c.Key)
		}
		if !annot {
			want := withoutOwner(c.Pre, pv.Owner)
			got := engine.OwnerRefs(c.Post)
			if !refsEqual(want, got) {
				key := "co-owner-cleanup-touches-other-owners"
				return Violf("C05", key,
					"pass %d: teardown of %s %s rewrote ownerReferences of %s from %v to %v (only its own reference may be removed)", pv.P.ID, ownerID.Kind, ownerID.Name, c.Key, engine.OwnerRefs(c.Pre), got)
			}
		}
	}
	return nil
}
