package checks

import (
	"encoding/json"
	"testing"

	"pgregory.net/rapid"

	"package-operator.run/verifharness/engine"
)

type diffCase struct {
	Part string    `json:"part"`
	A    *Scenario `json:"a"`
	B    *Scenario `json:"b"`
}

// genLifecycleWorld: 1-2 hand-made revisions rolled out, probed, drifted, paused, archived, deleted (no faults).
func genLifecycleWorld(t *rapid.T, prop string, opts SetGenOpts) *Scenario {
	sc := &Scenario{Prop: prop}
	sc.GracefulWidgets = rapid.IntRange(0, 3).Draw(t, "graceful") == 0
	nsets := rapid.IntRange(1, 2).Draw(t, "nsets")
	for i := 0; i < nsets; i++ {
		set := GenSet(t, opts)
		if i > 0 {
			set.Previous = []int{0}
		}
		sc.Steps = append(sc.Steps, Step{Op: "createSet", Set: &set})
	}
	ctrls := []string{engine.CtrlObjectSet, engine.CtrlObjectSet, engine.CtrlObjectSetPhase}
	n := rapid.IntRange(6, 34).Draw(t, "nsteps")
	for i := 0; i < n; i++ {
		switch k := rapid.IntRange(0, 19).Draw(t, "kind"); {
		case k <= 7:
			sc.Steps = append(sc.Steps, GenReconcile(t, ctrls))
		case k <= 9:
			sc.Steps = append(sc.Steps, Step{Op: "widget", I: rapid.IntRange(0, 2).Draw(t, "w"), J: rapid.IntRange(0, len(WidgetStates)-1).Draw(t, "state")})
		case k == 10:
			sc.Steps = append(sc.Steps, Step{Op: "tpDelete", I: rapid.IntRange(0, 6).Draw(t, "obj")})
		case k == 11:
			sc.Steps = append(sc.Steps, Step{Op: "tpEdit", I: rapid.IntRange(0, 6).Draw(t, "obj")})
		case k == 12:
			sc.Steps = append(sc.Steps, Step{Op: "tpReady", I: rapid.IntRange(0, 3).Draw(t, "cm"), On: rapid.Bool().Draw(t, "on")})
		case k == 13:
			sc.Steps = append(sc.Steps, Step{Op: "pauseSet", I: rapid.IntRange(0, 1).Draw(t, "set")})
		case k == 14:
			sc.Steps = append(sc.Steps, Step{Op: "unpauseSet", I: rapid.IntRange(0, 1).Draw(t, "set")})
		case k == 15:
			sc.Steps = append(sc.Steps, Step{Op: "archiveSet", I: rapid.IntRange(0, 1).Draw(t, "set")})
		case k == 16:
			sc.Steps = append(sc.Steps, Step{Op: "deleteSet", I: rapid.IntRange(0, 1).Draw(t, "set"), On: rapid.IntRange(0, 4).Draw(t, "orphan") == 0})
		case k == 17:
			sc.Steps = append(sc.Steps, Step{Op: "tpFinalizer", I: rapid.IntRange(0, 6).Draw(t, "obj")}, Step{Op: "tpUnfinalize", I: rapid.IntRange(0, 6).Draw(t, "obj2")})
		case k == 18:
			sc.Steps = append(sc.Steps, Step{Op: "gc"}, Step{Op: "kubelet"})
		default:
			sc.Steps = append(sc.Steps, Step{Op: "quiesce"})
		}
	}
	return sc
}

func cloneScenario(sc *Scenario) *Scenario {
	b, _ := json.Marshal(sc)
	var out Scenario
	_ = json.Unmarshal(b, &out)
	return &out
}

func TestC14Differential(t *testing.T) {
	st := NewStats("C14", "differential", "each generated lifecycle scenario (1-2 hand-made revisions with local/delegated phases; rollout, probe changes, drift, pause, archive, delete incl. orphan, blocking finalizers, graceful deletion, GC) is executed twice in lock step: with the objects inline, and with a random non-empty subset of phases stored in pre-created ObjectSlices (split over two slices); after every step the per-step write sequence on managed objects and the projected state (managed objects with owners/revision/content; ObjectSet/ObjectSetPhase conditions, controllerOf, revision, finalizers) must be identical; non-trivial = scenario contains a teardown (archive/delete) of a set with a sliced non-empty phase")
	run := func(c *diffCase) (map[string]bool, error) {
		return RunDifferential("C14", "sliced", c.A, c.B, nil, nil)
	}
	CheckOrReplay(t, st, func(data []byte) (any, error) {
		var c diffCase
		if err := json.Unmarshal(data, &c); err != nil {
			return nil, err
		}
		_, err := run(&c)
		return &c, err
	}, func(rt *rapid.T) {
		a := genLifecycleWorld(rt, "C14", SetGenOpts{AllowClass: true, PoolSize: 5, MaxObjs: 3, MaxPhases: 3})
		b := cloneScenario(a)
		slicedNonEmpty := false
		for i := range b.Steps {
			if b.Steps[i].Op != "createSet" {
				continue
			}
			for pi := range b.Steps[i].Set.Phases {
				ph := &b.Steps[i].Set.Phases[pi]
				if len(ph.Objs) > 0 && rapid.IntRange(0, 2).Draw(rt, "slice") > 0 {
					ph.Sliced = true
					slicedNonEmpty = true
				}
			}
		}
		teardown := false
		for _, s := range a.Steps {
			if s.Op == "archiveSet" || s.Op == "deleteSet" {
				teardown = true
			}
		}
		c := &diffCase{Part: "differential", A: a, B: b}
		labels, err := run(c)
		var ll []string
		for l := range labels {
			ll = append(ll, l)
		}
		st.Case(c, slicedNonEmpty && teardown, ll...)
		st.Report(rt, c, err)
	})
}

// TestC14Deployments: the differential of TestC14Differential one level up: the same ObjectDeployment history with the
// templates' objects inline and with some phases of some templates stored in ObjectSlices.
func TestC14Deployments(t *testing.T) {
	st := NewStats("C14", "deployments", "each generated ObjectDeployment history (2-5 templates with local/delegated phases; template edits, handover with late or missing readiness, history limit changes, pause, drift, the deployment controller interleaved with the revisions' own controllers; namespaced and cluster-scoped) is executed twice in lock step: with every template inline, and with a random non-empty subset of template phases stored in ObjectSlices owned by the deployment (so revisions mix inline and sliced phases); objects are addressed by creation order, generated revision names are canonicalised; after every step the writes on managed objects and the projected state (managed objects with owners/revision/content; conditions, controllerOf, lifecycle of every revision and phase object) must be identical; non-trivial = a revision with a sliced phase was archived or pruned")
	run := func(c *diffCase) (map[string]bool, error) {
		return RunDifferentialDeploy("C14", "sliced-deployment", c.A, c.B)
	}
	CheckOrReplay(t, st, func(data []byte) (any, error) {
		var c diffCase
		if err := json.Unmarshal(data, &c); err != nil {
			return nil, err
		}
		_, err := run(&c)
		return &c, err
	}, func(rt *rapid.T) {
		opts := SetGenOpts{AllowClass: true, PoolSize: 4, MaxObjs: 3, MaxPhases: 3, CPs: []string{"", "", "", "IfNoController", "None"}}
		var a *Scenario
		switch rapid.IntRange(0, 4).Draw(rt, "family") {
		case 0, 1:
			a = genC08Handover(rt, opts)
		case 2:
			a = genC08Prune(rt, opts)
		default:
			a = genDeployWorld(rt, "C14", opts, c09Extra)
		}
		a.Prop = "C14"
		a.CreationOrder = true
		// no call-indexed disturbances: the sliced variant issues additional reads (the slices), so "the n-th call of the next
		// pass" is a different call in the two variants
		var kept []Step
		for _, s := range a.Steps {
			switch s.Op {
			case "fault", "faultDryRun", "inject", "injectTouch", "injectSync", "injectOwnerEdit":
				continue
			}
			kept = append(kept, s)
		}
		a.Steps = kept
		if rapid.IntRange(0, 4).Draw(rt, "clusterdep") == 0 && !a.ClusterDep {
			clusterFlavour(a)
		}
		b := cloneScenario(a)
		sliced := false
		for ti := range b.Tmpls {
			// one phase of every template is sliced for sure, the others now and then: revisions mostly mix inline and sliced
			// phases, as the default chunking strategy produces them (only phases over the size limit are moved out)
			var nonEmpty []int
			for pi := range b.Tmpls[ti].Phases {
				if len(b.Tmpls[ti].Phases[pi].Objs) > 0 {
					nonEmpty = append(nonEmpty, pi)
				}
			}
			if len(nonEmpty) == 0 {
				continue
			}
			sure := rapid.SampledFrom(nonEmpty).Draw(rt, "sliceSure")
			for _, pi := range nonEmpty {
				if pi == sure || rapid.IntRange(0, 3).Draw(rt, "slice") == 0 {
					b.Tmpls[ti].Phases[pi].Sliced = true
					sliced = true
				}
			}
		}
		c := &diffCase{Part: "deployments", A: a, B: b}
		labels, err := run(c)
		var ll []string
		for l := range labels {
			ll = append(ll, l)
		}
		st.Case(c, sliced && labels["deployment-template-with-sliced-phase"] && labels["revision-archived-or-pruned"], ll...)
		st.Report(rt, c, err)
	})
}

func TestC14Packages(t *testing.T) {
	st := NewStats("C14", "packages", "scenario = real Package controller deploying generated valid packages with the EachObject / default chunking strategy over histories of package updates (image and config edits back and forth, so slices are added, dropped and re-created), third parties squatting the names of dropped slices with other content, interleaved with the ObjectDeployment/ObjectSet controllers; oracle = at every ObjectSlice delete the slice is referenced by neither the deployment template nor any existing ObjectSet, slice contents are never rewritten, and the deployment template with slices inlined equals the reference render (so a colliding name is never reused for other content); non-trivial = a slice was deleted or a name squatted")
	DepName = pkgNames[0]
	defer func() { DepName = "dep" }()
	mk := func(sc *Scenario) (*Runner, *C14SliceGCMonitor) {
		m := &C14SliceGCMonitor{}
		c16 := &C16Monitor{}
		// "rolls out ... exactly like the same ObjectSet with the objects inline" includes the deployment's archival decisions
		// (C08 rules), which look at the objects of the newest revision
		r := NewRunner(sc, m, c16, &C08Monitor{})
		c16.Env = &r.EnvIdx
		return r, m
	}
	CheckOrReplay(t, st, func(data []byte) (any, error) {
		return ReplayScenario(data, func(sc *Scenario) *Runner { r, _ := mk(sc); return r })
	}, func(rt *rapid.T) {
		sc := genPackageWorld(rt, "C14", false, []string{"EachObject", "EachObject", ""})
		sc.Part = "packages"
		// the package controller's cached reads may not show ObjectSets created a moment ago (until a "sync" step)
		sc.Lag = rapid.IntRange(0, 2).Draw(rt, "lag") == 0
		// sprinkle slice-name squatting and history pruning so dropped slices get collected
		var steps []Step
		for i, s := range sc.Steps {
			steps = append(steps, s)
			if sc.Lag && rapid.IntRange(0, 5).Draw(rt, "sync") == 0 {
				steps = append(steps, Step{Op: "sync"})
			}
			if i > 3 && rapid.IntRange(0, 7).Draw(rt, "squat") == 0 {
				steps = append(steps, Step{Op: "tpSquatSlice", I: rapid.IntRange(0, 5).Draw(rt, "which")})
			}
		}
		sc.Steps = steps
		r, m := mk(sc)
		err := r.Run()
		if v, ok := err.(*Violation); ok && v.Prop == "C16" {
			v.Prop = "C14"
			v.Key = "via-template-check:" + v.Key
		}
		if v, ok := err.(*Violation); ok && v.Prop == "C08" {
			v.Prop = "C14"
			v.Key = "via-C08:" + v.Key
		}
		st.Count("slice_deletes", int64(m.Deletes))
		st.Case(sc, r.Labels["c14-slice-deleted"] || r.Labels["c14-slice-name-squatted"], r.LabelList()...)
		st.Report(rt, sc, err)
	})
}
