package checks

import (
	"encoding/json"
	"fmt"
	"os"
	"sort"
	"testing"

	"pgregory.net/rapid"

	"package-operator.run/verifharness/engine"
)

// genC10Script draws a fixed-desired-state script: user steps separated by quiescence.
func genC10Script(t *rapid.T) *Scenario {
	sc := &Scenario{Prop: "C10"}
	opts := SetGenOpts{AllowClass: true, PoolSize: 4, MaxObjs: 2, MaxPhases: 3, AllowSliced: true, CPs: []string{"", "", "Prevent", "IfNoController", "None"}}
	add := func(s Step) { sc.Steps = append(sc.Steps, s, Step{Op: "quiesce"}) }
	readyAll := func() {
		for w := 0; w < 3; w++ {
			sc.Steps = append(sc.Steps, Step{Op: "widget", I: w, J: 1})
		}
		sc.Steps = append(sc.Steps, Step{Op: "quiesce"})
	}
	switch rapid.IntRange(0, 3).Draw(t, "family") {
	case 0: // hand-made chain: rollout, handover, archive/delete
		s0 := GenSet(t, opts)
		add(Step{Op: "createSet", Set: &s0})
		readyAll()
		if rapid.Bool().Draw(t, "second") {
			s1 := GenSet(t, opts)
			if rapid.Bool().Draw(t, "derived") {
				// the successor lists the same objects (other content, collision protection drawn again): both revisions stay
				// active and keep reconciling the shared objects
				s1 = s0
				s1.Phases = nil
				for _, ph := range s0.Phases {
					p2 := ph
					p2.Sliced = false
					p2.Objs = nil
					for _, o := range ph.Objs {
						o.Variant++
						o.CP = rapid.SampledFrom(opts.CPs).Draw(t, "cp1")
						p2.Objs = append(p2.Objs, o)
					}
					s1.Phases = append(s1.Phases, p2)
				}
			}
			s1.Previous = []int{0}
			add(Step{Op: "createSet", Set: &s1})
			readyAll()
		}
		switch rapid.IntRange(0, 2).Draw(t, "end") {
		case 0:
			add(Step{Op: "archiveSet", I: 0})
		case 1:
			add(Step{Op: "deleteSet", I: 0})
		}
	case 1, 2: // deployment: T0 -> T1 (-> T0) handover with shared/dropped objects
		o2 := opts
		o2.AllowSliced = false
		nt := rapid.IntRange(2, 3).Draw(t, "ntmpl")
		for i := 0; i < nt; i++ {
			sc.Tmpls = append(sc.Tmpls, GenSet(t, o2))
		}
		add(Step{Op: "createDeploy", I: 0, J: rapid.SampledFrom([]int{0, 2, 3}).Draw(t, "limit")})
		readyAll()
		add(Step{Op: "editDeploy", I: 1})
		readyAll()
		if rapid.Bool().Draw(t, "back") {
			add(Step{Op: "editDeploy", I: rapid.IntRange(0, nt-1).Draw(t, "t3")})
			readyAll()
		}
	default: // package install and update
		sc.Pkgs = genPkgPool(t, false)
		add(Step{Op: "createPackage", I: 0, J: 0, S: rapid.SampledFrom([]string{"", "EachObject"}).Draw(t, "chunk")})
		readyAll()
		add(Step{Op: "editPackage", I: 1, J: rapid.IntRange(0, 1).Draw(t, "cfg")})
		readyAll()
	}
	return sc
}

func c10Labels(l map[string]bool) []string {
	var out []string
	for k := range l {
		out = append(out, k)
	}
	return out
}

// TestC10Faults: exhaustive single-fault enumeration over every API call of the reference run of each generated script.
func TestC10Faults(t *testing.T) {
	st := NewStats("C10", "single-fault", "for each generated fixed-desired-state script (hand-made revision chain with handover and archive/delete incl. delegated and sliced phases; ObjectDeployment template changes; package install and update), the undisturbed run to quiescence gives the reference end state and its number N of PKO API calls; then every call index 1..N (quick tier: a stride through them) x {error before effect, effect with lost response, crash before, crash after (process restart, dynamic cache lost), and - for writes on PKO's own objects - a concurrent write by somebody else right before it (conflict)} is injected once, disturbances stop, the fair scheduler runs to quiescence; oracle = quiescence reached, end-state projection equals the reference, one more full round changes nothing; non-trivial = the fault hit a state-changing call")
	shard, shards := 0, 1
	fmt.Sscan(os.Getenv("VERIF_SHARD"), &shard)
	fmt.Sscan(os.Getenv("VERIF_SHARDS"), &shards)
	if shards < 1 {
		shards = 1
	}
	CheckOrReplay(t, st, func(data []byte) (any, error) {
		var c c10Case
		if err := json.Unmarshal(data, &c); err != nil {
			return nil, err
		}
		ref, err := runC10(c.Script, C10Disturbance{})
		if err != nil {
			return &c, err
		}
		got, err := runC10(c.Script, c.Dist)
		if err != nil {
			return &c, err
		}
		return &c, checkC10(ref, got)
	}, func(rt *rapid.T) {
		script := genC10Script(rt)
		ref, err := runC10(script, C10Disturbance{})
		if err != nil {
			st.Report(rt, &c10Case{Part: "single-fault", Script: script}, err)
			return
		}
		if !ref.quiescent {
			// the undisturbed run itself does not settle: judged as a case of its own
			c := &c10Case{Part: "single-fault", Script: script}
			st.Case(c, false, "reference-not-quiescent")
			st.Report(rt, c, Violf("C10", "no-convergence-undisturbed", "the undisturbed run of the script did not reach quiescence"))
			return
		}
		stride := 1
		if *flagScale <= 1 {
			stride = 1 + ref.calls/25 // quick tier: about 25 call indexes per script
		}
		off := rapid.IntRange(0, stride-1).Draw(rt, "offset")
		st.Count("reference_calls", int64(ref.calls))
		for g := 1 + off; g <= ref.calls; g += stride {
			for kind := 0; kind < C10ConcurrentWrite; kind++ {
				c := &c10Case{Part: "single-fault", Script: script, Dist: C10Disturbance{Faults: []C10Fault{{Call: g, Kind: kind}}}}
				got, err := runC10(script, c.Dist)
				if err == nil {
					err = checkC10(ref, got)
				}
				st.Case(c, ref.writeCall[g], fmt.Sprintf("kind=%d", kind))
				if err != nil {
					st.Report(rt, c, err)
					if _, isViol := err.(*Violation); isViol && IsKnown(err.(*Violation)) {
						continue
					}
					return
				}
			}
		}
		// concurrent writers: every write of the reference run on one of PKO's own objects is raced once (no stride: there
		// are few of them, and which one matters - e.g. the package controller's update of the ObjectDeployment)
		var own []int
		for g := range ref.ownWrite {
			own = append(own, g)
		}
		sort.Ints(own)
		for _, g := range own {
			c := &c10Case{Part: "single-fault", Script: script, Dist: C10Disturbance{Faults: []C10Fault{{Call: g, Kind: C10ConcurrentWrite}}}}
			got, err := runC10(script, c.Dist)
			if err == nil {
				err = checkC10(ref, got)
			}
			st.Case(c, true, fmt.Sprintf("kind=%d", C10ConcurrentWrite))
			if err != nil {
				st.Report(rt, c, err)
				if _, isViol := err.(*Violation); isViol && IsKnown(err.(*Violation)) {
					continue
				}
				return
			}
		}
	})
	_ = shard
}

// TestC10Sequences: rapid-generated sequences of faults, restarts and drift.
func TestC10Sequences(t *testing.T) {
	st := NewStats("C10", "sequences", "generated sequences of 1-5 faults (any call index, any kind) plus 0-3 drift actions between the script's steps (third party deletes a managed object, edits a desired field, drops the cache label) on the same generated scripts; same oracle; non-trivial = a fault hit a state-changing call or a drift action changed a managed object")
	CheckOrReplay(t, st, func(data []byte) (any, error) {
		var c c10Case
		if err := json.Unmarshal(data, &c); err != nil {
			return nil, err
		}
		ref, err := runC10(c.Script, C10Disturbance{})
		if err != nil {
			return &c, err
		}
		got, err := runC10(c.Script, c.Dist)
		if err != nil {
			return &c, err
		}
		return &c, checkC10(ref, got)
	}, func(rt *rapid.T) {
		script := genC10Script(rt)
		ref, err := runC10(script, C10Disturbance{})
		if err != nil {
			st.Report(rt, &c10Case{Part: "sequences", Script: script}, err)
			return
		}
		if !ref.quiescent {
			// the undisturbed run itself never settles (e.g. two revisions taking an object from each other for ever)
			c := &c10Case{Part: "sequences", Script: script}
			st.Case(c, false, "reference-not-quiescent")
			st.Report(rt, c, Violf("C10", "no-convergence-undisturbed", "the undisturbed run of the script did not reach quiescence"))
			return
		}
		c := &c10Case{Part: "sequences", Script: script}
		nf := rapid.IntRange(1, 5).Draw(rt, "nfaults")
		for i := 0; i < nf; i++ {
			c.Dist.Faults = append(c.Dist.Faults, C10Fault{Call: rapid.IntRange(1, ref.calls+10).Draw(rt, "call"), Kind: rapid.IntRange(0, C10ConcurrentWrite).Draw(rt, "kind")})
		}
		nd := rapid.IntRange(0, 3).Draw(rt, "ndrift")
		for i := 0; i < nd; i++ {
			op := rapid.SampledFrom([]string{"tpDelete", "tpEdit", "tpRelabel", "restart", "tpDeletePhase"}).Draw(rt, "driftop")
			// drift lands right before a user step (i.e. after the preceding quiescence)
			var slots []int
			for si, s := range script.Steps {
				if s.Op != "quiesce" && si > 0 {
					slots = append(slots, si)
				}
			}
			if len(slots) == 0 {
				break
			}
			c.Dist.Drift = append(c.Dist.Drift, C10Drift{At: rapid.SampledFrom(slots).Draw(rt, "at"), Step: Step{Op: op, I: rapid.IntRange(0, 6).Draw(rt, "obj")}})
		}
		// directed: a third party deletes a phase object right before a successor revision (or template / package version) arrives,
		// so the successor has to take over from a re-created phase object
		second := -1
		nset := 0
		for si, s := range script.Steps {
			if s.Op == "createSet" || s.Op == "editDeploy" || s.Op == "editPackage" {
				nset++
				if (s.Op == "createSet" && nset == 2) || (s.Op != "createSet" && second < 0) {
					second = si
				}
			}
		}
		if second > 0 && rapid.Bool().Draw(rt, "phasedelete") {
			c.Dist.Drift = append(c.Dist.Drift, C10Drift{At: second, Step: Step{Op: "tpDeletePhase", I: rapid.IntRange(0, 3).Draw(rt, "phase")}})
		}
		got, err := runC10(script, c.Dist)
		if err == nil {
			err = checkC10(ref, got)
		}
		nt := false
		if got != nil {
			nt = got.labels["fault-on-write"] || got.labels["drift-changed-state"]
			st.Case(c, nt, c10Labels(got.labels)...)
		}
		st.Report(rt, c, err)
	})
}

// TestC10Idle: the "further reconciles change nothing" half, with wall-clock time passing between quiescence and the
// final round (objects carrying mapped conditions at every level).
func TestC10Idle(t *testing.T) {
	st := NewStats("C10", "idle", "package install (and update) scripts in which every Widget carries a condition-map annotation, so mapped conditions travel Widget -> ObjectSet(Phase) -> ObjectDeployment -> Package; after quiescence the cluster is left idle for 1.1 s (so that the next reconciles run in a later wall-clock second) and one more full round of reconciles must perform no state-changing write; non-trivial = a mapped condition was present on the Package at quiescence")
	CheckOrReplay(t, st, func(data []byte) (any, error) {
		var c c10Case
		if err := json.Unmarshal(data, &c); err != nil {
			return nil, err
		}
		_, err := runC10(c.Script, c.Dist)
		return &c, err
	}, func(rt *rapid.T) {
		sc := &Scenario{Prop: "C10", Pkgs: genPkgPool(rt, false)}
		for pi := range sc.Pkgs {
			d := &sc.Pkgs[pi]
			have := false
			for fi := range d.Files {
				for oi := range d.Files[fi].Objs {
					if d.Files[fi].Objs[oi].Kind == "Widget" {
						d.Files[fi].Objs[oi].CondMap = true
						d.Files[fi].Objs[oi].CondMap2 = rapid.Bool().Draw(rt, "condmap2")
						have = true
					}
				}
			}
			if !have && len(d.Files) > 0 {
				d.Files[0].Objs = append(d.Files[0].Objs, PkgObj{Kind: "Widget", Name: "ow", Phase: d.Phases[0].Name, CondMap: true})
			}
		}
		sc.Steps = append(sc.Steps, Step{Op: "createPackage", I: 0, J: 0, S: rapid.SampledFrom([]string{"", "EachObject"}).Draw(rt, "chunk")}, Step{Op: "quiesce"})
		for w := 0; w < 4; w++ {
			sc.Steps = append(sc.Steps, Step{Op: "widget", I: w, J: 1})
		}
		sc.Steps = append(sc.Steps, Step{Op: "quiesce"})
		if rapid.Bool().Draw(rt, "update") {
			sc.Steps = append(sc.Steps, Step{Op: "editPackage", I: 1, J: rapid.IntRange(0, 1).Draw(rt, "cfg")}, Step{Op: "quiesce"})
			for w := 0; w < 4; w++ {
				sc.Steps = append(sc.Steps, Step{Op: "widget", I: w, J: 1})
			}
			sc.Steps = append(sc.Steps, Step{Op: "quiesce"})
		}
		c := &c10Case{Part: "idle", Script: sc, Dist: C10Disturbance{IdleMs: 1100}}
		got, err := runC10(sc, c.Dist)
		if got != nil {
			st.Case(c, got.labels["mapped-condition-on-Package"] && got.labels["idle-before-final-round"], c10Labels(got.labels)...)
		}
		st.Report(rt, c, err)
	})
}

var _ = engine.NSMain
