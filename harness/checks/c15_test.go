package checks

import (
	"encoding/json"
	"testing"

	"pgregory.net/rapid"

	"package-operator.run/verifharness/engine"
)

func TestC15(t *testing.T) {
	st := NewStats("C15", "differential", "each generated scenario (1-3 hand-made revisions in previous-chains sharing objects, all collisionProtection values; third-party ownership changes, workload status changes, drift, pause, archive, delete, blocking finalizers) is executed twice, quiescing after every step: all phases in-process vs. a random non-empty subset of phases delegated to the same-cluster ObjectSetPhase controller (class default), incl. handovers local->delegated and delegated->local; at every quiescence point the logical state (managed objects with owners mapped to their revision, revision annotation, content; ObjectSet conditions incl. the named failing phase, controllerOf, finalizers) must be equal; the delegated run is additionally watched by the C01/C03/C04 monitors and a lifetime monitor for the ObjectSetPhase objects; non-trivial = >=1 delegated and >=1 local phase and a handover between two revisions")
	run := func(c *diffCase) (map[string]bool, error) {
		return RunDifferentialQuiesced("C15", "delegated", c.A, c.B, []Monitor{&C15LifetimeMonitor{}, &C03Monitor{}, &C04Monitor{}, &C01Monitor{}})
	}
	CheckOrReplay(t, st, func(data []byte) (any, error) {
		var c diffCase
		if err := json.Unmarshal(data, &c); err != nil {
			return nil, err
		}
		_, err := run(&c)
		return &c, err
	}, func(rt *rapid.T) {
		// (a few objects a namespaced owner must not write - cluster-scoped kinds, other namespaces: refused in-process, so
		// refused when delegated)
		opts := SetGenOpts{AllowClass: false, CPs: []string{"", "", "Prevent", "IfNoController", "None"}, PoolSize: 4, MaxObjs: 2, MaxPhases: 3, ChainBias: true,
			Specials: []string{"clusterkind", "clusterkind-ns", "foreignns"}, SpecialRate: 12}
		a := &Scenario{Prop: "C15"}
		nsets := rapid.IntRange(1, 3).Draw(rt, "nsets")
		created := 0
		n := rapid.IntRange(4, 18).Draw(rt, "nsteps")
		for i := 0; i < n; i++ {
			k := rapid.IntRange(0, 13).Draw(rt, "kind")
			switch {
			case created < nsets && (k <= 3 || created == 0):
				set := GenSet(rt, opts)
				// every later set lists all earlier ones as previous: two unrelated ObjectSets competing for one object have no
				// defined winner (whoever re-creates a deleted object first keeps it), so their end state legitimately depends on
				// the order of passes, which differs between a local and a delegated phase
				for j := 0; j < created; j++ {
					set.Previous = append(set.Previous, j)
				}
				a.Steps = append(a.Steps, Step{Op: "createSet", Set: &set})
				created++
			case k <= 5:
				a.Steps = append(a.Steps, Step{Op: "widget", I: rapid.IntRange(0, 2).Draw(rt, "w"), J: rapid.IntRange(0, len(WidgetStates)-1).Draw(rt, "state")})
			case k == 6:
				a.Steps = append(a.Steps, Step{Op: "tpOwn", I: rapid.IntRange(0, 3).Draw(rt, "obj"), J: rapid.IntRange(0, 2).Draw(rt, "own"), K: rapid.IntRange(0, 1).Draw(rt, "rev")})
			case k == 7:
				a.Steps = append(a.Steps, Step{Op: "tpDelete", I: rapid.IntRange(0, 3).Draw(rt, "obj")})
			case k == 8:
				a.Steps = append(a.Steps, Step{Op: "tpEdit", I: rapid.IntRange(0, 3).Draw(rt, "obj")})
			case k == 9:
				a.Steps = append(a.Steps, Step{Op: rapid.SampledFrom([]string{"pauseSet", "unpauseSet"}).Draw(rt, "p"), I: rapid.IntRange(0, 2).Draw(rt, "set")})
			case k == 10:
				a.Steps = append(a.Steps, Step{Op: "archiveSet", I: rapid.IntRange(0, 2).Draw(rt, "set")})
			case k == 11:
				a.Steps = append(a.Steps, Step{Op: "deleteSet", I: rapid.IntRange(0, 2).Draw(rt, "set")})
			case k == 12:
				a.Steps = append(a.Steps, Step{Op: "tpReady", I: rapid.IntRange(0, 3).Draw(rt, "cm"), On: rapid.Bool().Draw(rt, "on")})
			default:
				a.Steps = append(a.Steps, Step{Op: "tpFinalizer", I: rapid.IntRange(0, 3).Draw(rt, "obj")}, Step{Op: "tpUnfinalize", I: rapid.IntRange(0, 3).Draw(rt, "obj2")})
			}
		}
		b := cloneScenario(a)
		delegated, local, sets := 0, 0, 0
		for i := range b.Steps {
			if b.Steps[i].Op != "createSet" {
				continue
			}
			sets++
			for pi := range b.Steps[i].Set.Phases {
				if rapid.IntRange(0, 1).Draw(rt, "delegate") == 0 {
					b.Steps[i].Set.Phases[pi].Class = engine.ClassDefault
					delegated++
				} else {
					local++
				}
			}
		}
		c := &diffCase{Part: "differential", A: a, B: b}
		labels, err := run(c)
		var ll []string
		for l := range labels {
			ll = append(ll, l)
		}
		st.Case(c, delegated > 0 && local > 0 && sets >= 2, ll...)
		st.Report(rt, c, err)
	})
}

// TestC15Recreate: "exactly one ObjectSetPhase ... exists from rollout until the ObjectSet's teardown": when a third party
// deletes the phase object, PKO restores it, and afterwards everything - in particular the adoption decisions of a
// successor revision, which identify objects of a delegated phase through the phase object - must be as if nothing had
// happened. Metamorphic relation: the same delegated scenario with and without the deletion, compared at every quiescence.
// (Deleting the phase object is not a neutral step for the in-process run, which is why this is not part of TestC15.)
func TestC15Recreate(t *testing.T) {
	st := NewStats("C15", "recreate", "scenario = revision chain of 2-3 hand-made ObjectSets sharing objects, most phases delegated; after a revision has rolled out a third party deletes one of its ObjectSetPhase objects; later a successor revision (previous = all earlier) is created and rolled out, older revisions are archived; the same scenario without the deletion is the reference; quiescing after every step, the logical state (objects, owners mapped to revisions, revision annotation, ObjectSet conditions) must be equal, and the lifetime monitor watches the ObjectSetPhase objects; non-trivial = a phase object was deleted and a successor revision was created afterwards")
	run := func(c *diffCase) (map[string]bool, error) {
		return RunDifferentialQuiesced("C15", "recreated-phase", c.A, c.B, []Monitor{&C15LifetimeMonitor{}, &C03Monitor{}, &C04Monitor{}})
	}
	CheckOrReplay(t, st, func(data []byte) (any, error) {
		var c diffCase
		if err := json.Unmarshal(data, &c); err != nil {
			return nil, err
		}
		_, err := run(&c)
		return &c, err
	}, func(rt *rapid.T) {
		opts := SetGenOpts{AllowClass: false, CPs: []string{"", "", "Prevent", "IfNoController"}, PoolSize: 3, MaxObjs: 2, MaxPhases: 2, ChainBias: true}
		b := &Scenario{Prop: "C15", Note: "recreate"}
		nsets := rapid.IntRange(2, 3).Draw(rt, "nsets")
		ready := func() {
			for w := 0; w < 3; w++ {
				b.Steps = append(b.Steps, Step{Op: "widget", I: w, J: 1})
			}
		}
		deleted, successorAfter := false, false
		for i := 0; i < nsets; i++ {
			set := GenSet(rt, opts)
			for pi := range set.Phases {
				if rapid.IntRange(0, 3).Draw(rt, "delegate") > 0 {
					set.Phases[pi].Class = engine.ClassDefault
				}
			}
			for j := 0; j < i; j++ {
				set.Previous = append(set.Previous, j)
			}
			b.Steps = append(b.Steps, Step{Op: "createSet", Set: &set})
			if deleted {
				successorAfter = true
			}
			ready()
			for k := rapid.IntRange(0, 2).Draw(rt, "ndel"); k > 0 && i < nsets-1; k-- {
				b.Steps = append(b.Steps, Step{Op: "tpDeletePhase", I: rapid.IntRange(0, 3).Draw(rt, "phase")})
				deleted = true
				ready()
			}
			if i > 0 && rapid.Bool().Draw(rt, "archiveold") {
				b.Steps = append(b.Steps, Step{Op: "archiveSet", I: i - 1})
			}
		}
		a := cloneScenario(b)
		for i := range a.Steps {
			if a.Steps[i].Op == "tpDeletePhase" {
				a.Steps[i] = Step{Op: "quiesce"}
			}
		}
		c := &diffCase{Part: "recreate", A: a, B: b}
		labels, err := run(c)
		var ll []string
		for l := range labels {
			ll = append(ll, l)
		}
		st.Case(c, labels["phase-object-deleted-by-third-party"] && successorAfter && deleted, ll...)
		st.Report(rt, c, err)
	})
}

// TestC15Stale: an ObjectSet must trust a delegated phase's Available status only for the phase object's
// current generation. Generation bumps without the phase controller having run come from pause/unpause of
// the ObjectSet (propagated as a spec patch) and from direct edits of the phase's paused flag.
func TestC15Stale(t *testing.T) {
	st := NewStats("C15", "stale-status", "scenario = one ObjectSet with 1-3 phases, most of them delegated, rolled out; then arbitrary interleavings of ObjectSet passes, ObjectSetPhase passes, pause/unpause of the ObjectSet, direct edits of an ObjectSetPhase's paused flag (generation bump without the phase controller having run) and workload status changes; oracle = C03/C06 monitors on the states each pass observed (a phase counts as passed only if its Available condition refers to the phase object's current generation); non-trivial = an ObjectSet pass observed a delegated phase whose status was stale")
	mk := func(sc *Scenario) *Runner { return NewRunner(sc, &C03Monitor{}, &C06Monitor{}, &staleLabeler{}) }
	CheckOrReplay(t, st, func(data []byte) (any, error) {
		v, err := ReplayScenario(data, mk)
		return v, remapProp(err, "C15")
	}, func(rt *rapid.T) {
		sc := &Scenario{Prop: "C15", Part: "stale-status", Note: "stale-status"}
		set := GenSet(rt, SetGenOpts{AllowClass: true, MaxPhases: 3, MaxObjs: 2, PoolSize: 5})
		for i := range set.Phases {
			if rapid.IntRange(0, 3).Draw(rt, "forcedelegate") > 0 {
				set.Phases[i].Class = engine.ClassDefault
			}
		}
		sc.Steps = append(sc.Steps, Step{Op: "createSet", Set: &set}, Step{Op: "widget", I: 0, J: 1}, Step{Op: "widget", I: 1, J: 1}, Step{Op: "widget", I: 2, J: 1}, Step{Op: "quiesce"},
			Step{Op: "widget", I: 0, J: 1}, Step{Op: "widget", I: 1, J: 1}, Step{Op: "widget", I: 2, J: 1}, Step{Op: "quiesce"})
		n := rapid.IntRange(4, 24).Draw(rt, "nsteps")
		for i := 0; i < n; i++ {
			switch k := rapid.IntRange(0, 11).Draw(rt, "kind"); {
			case k <= 3:
				sc.Steps = append(sc.Steps, Step{Op: "reconcile", Ctrl: engine.CtrlObjectSet})
			case k <= 5:
				sc.Steps = append(sc.Steps, Step{Op: "reconcile", Ctrl: engine.CtrlObjectSetPhase, I: rapid.IntRange(0, 2).Draw(rt, "ph")})
			case k == 6:
				sc.Steps = append(sc.Steps, Step{Op: "pauseSet"})
			case k == 7:
				sc.Steps = append(sc.Steps, Step{Op: "unpauseSet"})
			case k <= 9:
				sc.Steps = append(sc.Steps, Step{Op: "pausePhase", I: rapid.IntRange(0, 2).Draw(rt, "ph"), On: rapid.Bool().Draw(rt, "on")})
			default:
				sc.Steps = append(sc.Steps, Step{Op: "widget", I: rapid.IntRange(0, 2).Draw(rt, "w"), J: rapid.IntRange(0, len(WidgetStates)-1).Draw(rt, "state")})
			}
		}
		r := mk(sc)
		err := remapProp(r.Run(), "C15")
		st.Case(sc, r.Labels["c15-stale-phase-status-observed"], r.LabelList()...)
		st.Report(rt, sc, err)
	})
}

func remapProp(err error, prop string) error {
	if v, ok := err.(*Violation); ok && v.Prop != prop {
		return &Violation{Prop: prop, Key: "via-" + v.Prop + ":" + v.Key, What: v.What}
	}
	return err
}

// staleLabeler labels passes in which an ObjectSet observed a delegated phase with a stale Available status.
type staleLabeler struct{}

func (staleLabeler) AfterPass(r *Runner, pv *PassView) error {
	if !isSetController(pv.P.Controller) || pv.Owner == nil {
		return nil
	}
	for k, o := range pv.Observed {
		if k.Kind == "ObjectSetPhase" && o != nil {
			if c, ok := engine.Conditions(o)["Available"]; ok && c.Status == "True" && c.ObservedGeneration != engine.Generation(o) {
				r.Labels["c15-stale-phase-status-observed"] = true
			}
		}
	}
	return nil
}
