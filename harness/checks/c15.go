package checks

import (
	"fmt"
	"sort"
	"strings"

	"package-operator.run/verifharness/engine"
	"package-operator.run/verifharness/kubesim"
)

// projectLogical projects the cluster so that an ObjectSetPhase of revision r counts as ObjectSet r.
func projectLogical(r *Runner) map[string]any {
	out := map[string]any{}
	phaseParent := map[string]string{} // phase uid -> parent set name
	for _, kind := range []string{"ObjectSetPhase", "ClusterObjectSetPhase"} {
		for _, k := range r.W.ListKeys(engine.PKOGroup, kind) {
			o := r.W.Store.PeekNoCopy(k)
			if cr, ok := engine.ControllerRef(o); ok {
				phaseParent[engine.UID(o)] = cr.Name
			}
		}
	}
	for _, k := range r.W.Store.Keys() {
		o := r.W.Store.PeekNoCopy(k)
		switch {
		case k.Group != engine.PKOGroup && k.Kind != "Namespace":
			var owners []string
			for _, rf := range engine.OwnerRefs(o) {
				name, kind := rf.Name, rf.Kind
				if strings.HasSuffix(kind, "ObjectSetPhase") {
					if p, ok := phaseParent[rf.UID]; ok {
						name = p
					} else if i := strings.LastIndex(name, "-"); i > 0 {
						name = name[:i]
					}
					kind = strings.TrimSuffix(kind, "Phase")
				}
				// plain (demoted) owner references of PKO revisions depend on which revision happened to
				// re-create a shared object first, i.e. on the schedule, not on delegation: only the
				// controller and non-PKO owners are compared
				if !rf.Controller && strings.HasSuffix(kind, "ObjectSet") {
					continue
				}
				owners = append(owners, fmt.Sprintf("%s/%s ctrl=%v", kind, name, rf.Controller))
			}
			sort.Strings(owners)
			rev, _, _ := engine.RevisionOf(o)
			out[k.String()] = map[string]any{"owners": owners, "rev": rev, "data": o["data"], "spec": o["spec"], "deleting": kubesim.MetaString(o, "deletionTimestamp") != ""}
		case k.Kind == "ObjectSet" || k.Kind == "ClusterObjectSet":
			conds := map[string]string{}
			failing := ""
			for t, c := range engine.Conditions(o) {
				// the statement covers cluster objects, gating, adoption and teardown: of the status only the
				// Available verdict and completed archival are compared (InTransition/Succeeded/Paused differ
				// legitimately on error paths and in timing)
				if t == "Available" || t == "Archived" {
					conds[t] = c.Status
				}
				// a refusal inside a delegated phase surfaces on the ObjectSet as the phase's failure, in-process as
				// CollisionDetected/PreflightError: the status is compared always, the named phase when both name one
				if t == "Available" && c.Reason == "ProbeFailure" {
					if i := strings.Index(c.Message, " failed"); i > 0 {
						failing = c.Message[:i]
					}
				}
			}
			var co []string
			for _, e := range controllerOfList(asMap(o["status"])) {
				co = append(co, e.Group+"/"+e.Kind+"/"+e.Name)
			}
			sort.Strings(co)
			if conds["Available"] != "True" {
				co = nil // only complete when Available (C06); on error paths the list is whatever was stored before
			}
			out[k.String()] = map[string]any{"conds": conds, "failingPhase": failing, "controllerOf": co, "revision": asMap(o["status"])["revision"],
				"finalizers": finalizers(o), "deleting": kubesim.MetaString(o, "deletionTimestamp") != "", "lifecycle": lifecycleOf(o)}
		}
	}
	return out
}

func blankUnnamedFailingPhase(a, b map[string]any) {
	for k, va := range a {
		ma, ok := va.(map[string]any)
		mb, ok2 := b[k].(map[string]any)
		if !ok || !ok2 {
			continue
		}
		if fa, has := ma["failingPhase"]; has {
			if fa == "" || mb["failingPhase"] == "" {
				ma["failingPhase"], mb["failingPhase"] = "", ""
			}
		}
	}
}

// C15LifetimeMonitor checks, at quiescence, the ObjectSetPhase objects of the delegated run.
type C15LifetimeMonitor struct{}

func (m *C15LifetimeMonitor) AfterPass(*Runner, *PassView) error { return nil }

func (m *C15LifetimeMonitor) AfterStep(r *Runner, idx int, st Step) error {
	if st.Op != "quiesce" || !r.LastQuiesceOK {
		return nil
	}
	liveSets := map[string]map[string]any{}
	for _, kind := range []string{"ObjectSet", "ClusterObjectSet"} {
		for _, k := range r.W.ListKeys(engine.PKOGroup, kind) {
			o := r.W.Store.PeekNoCopy(k)
			liveSets[engine.UID(o)] = o
		}
	}
	// every phase object belongs to a live set that still wants it
	for _, kind := range []string{"ObjectSetPhase", "ClusterObjectSetPhase"} {
		for _, k := range r.W.ListKeys(engine.PKOGroup, kind) {
			po := r.W.Store.PeekNoCopy(k)
			cr, ok := engine.ControllerRef(po)
			if !ok {
				continue
			}
			set := liveSets[cr.UID]
			if set == nil {
				continue // garbage collection is the cluster's job
			}
			if condTrue(set, "Archived") {
				return Violf("C15", "phase-object-outlives-archival", "quiescent: %s still exists although its ObjectSet %s completed archival", k, cr.Name)
			}
		}
	}
	for _, set := range liveSets {
		if OwnerArchived(set) || OwnerDeleting(set) || setRevision(set) == 0 {
			continue
		}
		name, ns := kubesim.MetaString(set, "name"), kubesim.MetaString(set, "namespace")
		phases := OwnerPhases(r.W.Store, set)
		av := engine.Conditions(set)["Available"]
		if av.Reason != "Available" && av.Reason != "ProbeFailure" {
			continue // blocked by collision / preflight: nothing to say about later phases
		}
		failing := ""
		if av.Reason == "ProbeFailure" {
			if i := strings.Index(av.Message, "\" failed"); i > 0 {
				failing = strings.TrimPrefix(av.Message[:i], "Phase \"")
			}
		}
		for _, ph := range phases {
			if ph.Class != "" {
				pk := phaseObjectKey(set, ph)
				po := r.W.Store.PeekNoCopy(pk)
				if po == nil {
					return Violf("C15", "phase-object-missing", "quiescent: ObjectSet %s/%s reached phase %q (class %s) but there is no ObjectSetPhase %s", ns, name, ph.Name, ph.Class, pk.Name)
				}
				if !IsControlledBy(po, set) {
					return Violf("C15", "phase-object-not-controlled", "quiescent: %s is not controlled by ObjectSet %s", pk, name)
				}
				sp := asMap(po["spec"])
				ssp := asMap(set["spec"])
				if !kubesim.JSONEqual(emptyIfNil(sp["objects"]), emptyIfNil(phaseObjectsOf(set, ph.Name))) {
					return Violf("C15", "phase-object-content-differs", "quiescent: %s does not carry the objects of phase %q of %s", pk, ph.Name, name)
				}
				if !kubesim.JSONEqual(emptyIfNil(sp["availabilityProbes"]), emptyIfNil(ssp["availabilityProbes"])) {
					return Violf("C15", "phase-object-probes-differ", "quiescent: %s does not carry the availability probes of %s", pk, name)
				}
				if asInt(sp["revision"]) != setRevision(set) {
					return Violf("C15", "phase-object-revision-differs", "quiescent: %s has revision %d, its ObjectSet %d", pk, asInt(sp["revision"]), setRevision(set))
				}
				if !kubesim.JSONEqual(emptyIfNil(sp["previous"]), emptyIfNil(ssp["previous"])) {
					return Violf("C15", "phase-object-previous-differs", "quiescent: %s previous=%v, ObjectSet previous=%v", pk, sp["previous"], ssp["previous"])
				}
				pp, _ := sp["paused"].(bool)
				if pp != OwnerPaused(set) {
					return Violf("C15", "phase-object-paused-differs", "quiescent: %s paused=%v, ObjectSet paused=%v", pk, pp, OwnerPaused(set))
				}
			}
			if ph.Name == failing {
				break
			}
		}
	}
	return nil
}

func emptyIfNil(v any) any {
	if v == nil {
		return []any{}
	}
	return v
}

func phaseObjectsOf(set map[string]any, phase string) any {
	for _, p := range asList(asMap(set["spec"])["phases"]) {
		if asStr(asMap(p)["name"]) == phase {
			return asMap(p)["objects"]
		}
	}
	return nil
}

// RunDifferentialQuiesced runs both variants, quiescing after every step, and compares logical projections.
func RunDifferentialQuiesced(prop, keyPrefix string, a, b *Scenario, monsB []Monitor) (labels map[string]bool, err error) {
	ra, rb := NewRunner(a), NewRunner(b, monsB...)
	ra.MaxQuiesceRounds, rb.MaxQuiesceRounds = 16, 16
	for i := range a.Steps {
		if e := ra.Exec(i, a.Steps[i]); e != nil {
			return ra.Labels, e
		}
		if e := rb.Exec(i, b.Steps[i]); e != nil {
			return rb.Labels, e
		}
		_, oka, ea := ra.Quiesce()
		if ea != nil {
			return ra.Labels, ea
		}
		_, okb, eb := rb.Quiesce()
		if eb != nil {
			return rb.Labels, eb
		}
		rb.LastQuiesceOK = okb
		for _, m := range rb.Monitors {
			if sm, ok := m.(StepMonitor); ok {
				if e := sm.AfterStep(rb, i, Step{Op: "quiesce"}); e != nil {
					return rb.Labels, e
				}
			}
		}
		if !oka || !okb {
			// no fixpoint within the round bound: for C15 that alone is not a verdict (C10 judges convergence)
			rb.Labels["no-quiescence"] = true
			continue
		}
		pa, pb := projectLogical(ra), projectLogical(rb)
		blankUnnamedFailingPhase(pa, pb)
		if !kubesim.JSONEqual(mustNorm(pa), mustNorm(pb)) {
			key := keyPrefix + "-state-differs"
			if blockedLaterDelegatedPhase(ra, rb, firstDiffKey(pa, pb)) {
				key += ":object-of-later-delegated-phase-of-blocked-objectset"
			} else if delegatedPhaseOfSetInTeardown(rb, firstDiffKey(pa, pb)) {
				key += ":object-of-delegated-phase-of-objectset-in-teardown"
			}
			return rb.Labels, Violf(prop, key, "after step %d (%s) at quiescence the logical cluster state differs: %s", i, a.Steps[i].Op, firstDiff(pa, pb))
		}
	}
	return rb.Labels, nil
}

func firstDiffKey(a, b map[string]any) string {
	na, nb := mustNorm(a), mustNorm(b)
	var keys []string
	for k := range na {
		keys = append(keys, k)
	}
	for k := range nb {
		if _, ok := na[k]; !ok {
			keys = append(keys, k)
		}
	}
	sort.Strings(keys)
	for _, k := range keys {
		if !kubesim.JSONEqual(na[k], nb[k]) {
			return k
		}
	}
	return ""
}

// blockedLaterDelegatedPhase: the differing object belongs to a delegated phase that is not the first phase of an
// ObjectSet which is currently not Available (an earlier phase fails or is blocked): the known difference that
// an existing ObjectSetPhase keeps reconciling although the in-process rollout would have stopped before it.
// delegatedPhaseOfSetInTeardown: the differing object belongs to a delegated phase of an ObjectSet that is being deleted or
// archived and whose teardown has not reached that phase yet (teardown goes through the phases in reverse order and may wait,
// e.g. for a finalizer on a later phase's object): the phase object is still there and its controller keeps reconciling it,
// while an in-process phase of an ObjectSet in teardown is not reconciled any more.
func delegatedPhaseOfSetInTeardown(r *Runner, diffKey string) bool {
	for _, kind := range []string{"ObjectSet", "ClusterObjectSet"} {
		for _, k := range r.W.ListKeys(engine.PKOGroup, kind) {
			set := r.W.Store.PeekNoCopy(k)
			if !OwnerDeleting(set) && !OwnerArchived(set) {
				continue
			}
			for _, ph := range OwnerPhases(r.W.Store, set) {
				if ph.Class == "" {
					continue
				}
				if r.W.Store.PeekNoCopy(phaseObjectKey(set, ph)) == nil {
					continue
				}
				for _, ok := range ph.Keys {
					if ok.String() == diffKey {
						return true
					}
				}
			}
		}
	}
	return false
}

func blockedLaterDelegatedPhase(ra, r *Runner, diffKey string) bool {
	for _, kind := range []string{"ObjectSet", "ClusterObjectSet"} {
		for _, k := range r.W.ListKeys(engine.PKOGroup, kind) {
			set := r.W.Store.PeekNoCopy(k)
			for i, ph := range OwnerPhases(r.W.Store, set) {
				if i == 0 || ph.Class == "" {
					continue
				}
				for _, ok := range ph.Keys {
					if !condTrue(set, "Available") && ok.String() == diffKey {
						return true
					}
					// the later delegated phase produced (or kept) an object the in-process run does not have, and the first
					// difference noticed is the ObjectSet itself (e.g. the Available verdict of the paused set over that object)
					if ra != nil && k.String() == diffKey {
						if (r.W.Store.PeekNoCopy(ok) == nil) != (ra.W.Store.PeekNoCopy(ok) == nil) {
							return true
						}
						// ... or repaired an object of its phase (e.g. restored the cache label another revision's teardown had
						// removed) which the in-process run, blocked at an earlier phase, does not touch: the in-process ObjectSet
						// is not Available, the delegated one is
						if as := ra.W.Store.PeekNoCopy(k); as != nil && !condTrue(as, "Available") {
							return true
						}
					}
				}
			}
		}
	}
	return false
}
