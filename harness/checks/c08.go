package checks

import (
	"sort"

	"package-operator.run/verifharness/engine"
	"package-operator.run/verifharness/kubesim"
)

// C08Monitor: rollouts never archive or delete what is still serving.
type C08Monitor struct {
	Archivals, Prunes int
}

func condTrue(o map[string]any, t string) bool {
	c, ok := engine.Conditions(o)[t]
	return ok && c.Status == "True"
}

func specObjectIDs(store *kubesim.Store, set map[string]any) map[string]bool {
	out := map[string]bool{}
	for _, ph := range OwnerPhases(store, set) {
		for _, k := range ph.Keys {
			out[k.Group+"/"+k.Kind+"/"+k.Namespace+"/"+k.Name] = true
		}
	}
	return out
}

func (m *C08Monitor) AfterPass(r *Runner, pv *PassView) error {
	// (b) handover: an object that the newest live revision of the deployment contains is never deleted
	base := pv.P.FirstSeq
	for ci, c := range pv.Calls {
		if c.Actor != "pko" || c.Verb != "delete" || c.DryRun || c.Err != "" || c.Key.Group == engine.PKOGroup {
			continue
		}
		sets := depSetsAt(r, base+ci)
		if len(sets) == 0 {
			continue
		}
		newest := sets[len(sets)-1]
		if setRevision(newest) == 0 || lifecycleOf(newest) == "Archived" || OwnerDeleting(newest) {
			continue
		}
		dep := r.StateAt(depKey(), base+ci)
		if dep == nil || OwnerDeleting(dep) {
			continue
		}
		id := c.Key.Group + "/" + c.Key.Kind + "/" + c.Key.Namespace + "/" + c.Key.Name
		// the object was legitimately dropped if a revision newer than the deleting one went Available without it (a later
		// revision listing it again re-creates it): then this is not the handover between an outgoing and an incoming
		// revision that both contain the object
		droppedInBetween := false
		if pv.Owner != nil {
			ownRev := setRevision(pv.Owner)
			if ownRev == 0 {
				ownRev = asInt(asMap(pv.Owner["spec"])["revision"]) // an ObjectSetPhase carries its set's revision in spec
			}
			for _, o := range sets {
				if ownRev > 0 && setRevision(o) > ownRev && engine.Conditions(o)["Available"].Status == "True" && !specObjectIDs(r.W.Store, o)[id] {
					droppedInBetween = true
				}
			}
			// the statement ties the archival of an unavailable revision to what the *next newer* revision contains: a revision
			// whose successor dropped the object may be archived (and then deletes it) even if a still later revision lists
			// the object again - that one re-creates it; the handover clause is about an outgoing revision and its successor
			nextDrops := func(list []map[string]any) bool {
				var next map[string]any
				for _, o := range list {
					if setRevision(o) > ownRev && (next == nil || setRevision(o) < setRevision(next)) {
						next = o
					}
				}
				return next != nil && engine.UID(next) != engine.UID(newest) && !specObjectIDs(r.W.Store, next)[id]
			}
			if ownRev > 0 && nextDrops(sets) {
				droppedInBetween = true
			}
			// ... judged at the moment the deleting revision was archived as well: the deletion only carries out that decision,
			// and the intermediate revision may have stopped being Available since (the newest one taking its objects over)
			ownSet := pv.OwnerKey
			if (ownSet.Kind == "ObjectSetPhase" || ownSet.Kind == "ClusterObjectSetPhase") && pv.Owner != nil {
				if cr, ok := engine.ControllerRef(pv.Owner); ok {
					ownSet = kubesim.Key{Group: engine.PKOGroup, Kind: depSetKind(), Namespace: pv.OwnerKey.Namespace, Name: cr.Name}
				}
			}
			for j := base + ci - 1; j >= 0 && !droppedInBetween && ownRev > 0; j-- {
				ac := r.W.Store.Trace[j]
				if ac.Actor == "pko" && ac.Verb == "update" && ac.Key == ownSet && ac.Pre != nil && ac.Post != nil &&
					lifecycleOf(ac.Pre) != "Archived" && lifecycleOf(ac.Post) == "Archived" {
					for _, o := range depSetsAt(r, j) {
						if setRevision(o) > ownRev && engine.Conditions(o)["Available"].Status == "True" && !specObjectIDs(r.W.Store, o)[id] {
							droppedInBetween = true
						}
					}
					if nextDrops(depSetsAt(r, j)) {
						droppedInBetween = true
					}
					break
				}
			}
		}
		if droppedInBetween {
			r.Labels["c08-object-dropped-by-available-intermediate-revision"] = true
			continue
		}
		if specObjectIDs(r.W.Store, newest)[id] {
			circ := ""
			// the revision doing the teardown: the pass's ObjectSet, or the ObjectSet controlling the pass's ObjectSetPhase
			setKey := pv.OwnerKey
			if (pv.OwnerKey.Kind == "ObjectSetPhase" || pv.OwnerKey.Kind == "ClusterObjectSetPhase") && pv.Owner != nil {
				if cr, ok := engine.ControllerRef(pv.Owner); ok {
					setKey = kubesim.Key{Group: engine.PKOGroup, Kind: depSetKind(), Namespace: pv.OwnerKey.Namespace, Name: cr.Name}
				}
			}
			if own := r.StateAt(setKey, base+ci); own != nil && setKey.Kind == depSetKind() {
				listed := false
				for _, e := range controllerOfList(asMap(own["status"])) {
					if e.Kind == c.Key.Kind && e.Group == c.Key.Group && e.Name == c.Key.Name {
						listed = true
					}
				}
				if !listed {
					// the outgoing revision controlled the object without reporting it in status.controllerOf (the report stops at
					// the first phase whose probes fail), so the deployment saw no overlap with the newest revision
					circ = ":outgoing-revision-underreports-controllerof"
				}
			}
			if circ == "" {
				// was the newest revision paused (by the user or through a paused deployment) when the outgoing revision was archived?
				// A paused revision reports Available from what it observes but adopts nothing.
				newestKey := kubesim.Key{Group: engine.PKOGroup, Kind: depSetKind(), Namespace: kubesim.MetaString(newest, "namespace"), Name: kubesim.MetaString(newest, "name")}
				for j := base + ci - 1; j >= 0; j-- {
					ac := r.W.Store.Trace[j]
					if ac.Actor == "pko" && ac.Verb == "update" && ac.Key == setKey && ac.Pre != nil && ac.Post != nil &&
						lifecycleOf(ac.Pre) != "Archived" && lifecycleOf(ac.Post) == "Archived" {
						if n := r.StateAt(newestKey, j); n != nil && (engine.Conditions(n)["Paused"].Status == "True" || lifecycleOf(n) == "Paused") {
							circ = ":newest-revision-available-while-paused"
						}
						break
					}
				}
			}
			return Violf("C08", "shared-object-deleted-during-handover"+circ,
				"pass %d (%s %s): deleted %s although the newest revision %s (rev %d) of the deployment contains it",
				pv.P.ID, pv.P.Controller, pv.P.Req.Name, c.Key, kubesim.MetaString(newest, "name"), setRevision(newest))
		}
	}
	if !isDepController(pv.P.Controller) || pv.Owner == nil {
		return nil
	}
	start := depSetsAt(r, pv.P.FirstSeq)
	byName := map[string]map[string]any{}
	for _, o := range start {
		byName[kubesim.MetaString(o, "name")] = o
	}
	limit := int64(10)
	if v, ok := asMap(pv.Owner["spec"])["revisionHistoryLimit"]; ok {
		limit = asInt(v)
	}
	var deleted []string
	for _, c := range pv.Calls {
		if c.Actor != "pko" || c.Key.Kind != depSetKind() || c.DryRun || c.Err != "" {
			continue
		}
		x := byName[c.Key.Name]
		if c.Verb == "update" && c.Pre != nil && c.Post != nil && lifecycleOf(c.Pre) != "Archived" && lifecycleOf(c.Post) == "Archived" {
			m.Archivals++
			r.Labels["c08-archival"] = true
			if x == nil {
				continue
			}
			if len(start) >= 3 {
				r.Labels["c08-archival-in-chain-of-3"] = true
			}
			newest := start[len(start)-1]
			if engine.UID(x) == engine.UID(newest) {
				return Violf("C08", "newest-revision-archived", "pass %d: the newest revision %s was archived", pv.P.ID, c.Key.Name)
			}
			if !condTrue(x, "Paused") {
				return Violf("C08", "archived-without-paused-confirmation",
					"pass %d: %s was archived although it has not confirmed being paused (Paused condition %q)", pv.P.ID, c.Key.Name, engine.Conditions(x)["Paused"].Status)
			}
			newerAvailable := false
			var next map[string]any
			for _, o := range start {
				if setRevision(o) > setRevision(x) {
					if condTrue(o, "Available") {
						newerAvailable = true
					}
					if next == nil || setRevision(o) < setRevision(next) {
						next = o
					}
				}
			}
			if newerAvailable {
				continue
			}
			ok := !condTrue(x, "Available") && next != nil
			if ok {
				ctrlOf, reported := asMap(x["status"])["controllerOf"]
				if !reported {
					ok = false
				} else {
					nextObjs := specObjectIDs(r.W.Store, next)
					for _, e := range asList(ctrlOf) {
						em := asMap(e)
						ns := asStr(em["namespace"])
						if nextObjs[asStr(em["group"])+"/"+asStr(em["kind"])+"/"+ns+"/"+asStr(em["name"])] {
							ok = false
						}
					}
				}
			}
			if !ok {
				return Violf("C08", "archived-while-serving",
					"pass %d: %s (rev %d, Available=%v, controllerOf=%v) was archived although no newer revision is Available and it is not an unavailable revision controlling nothing of the next newer one",
					pv.P.ID, c.Key.Name, setRevision(x), condTrue(x, "Available"), asMap(x["status"])["controllerOf"])
			}
		}
		if c.Verb == "delete" {
			m.Prunes++
			r.Labels["c08-prune"] = true
			deleted = append(deleted, c.Key.Name)
		}
	}
	if len(deleted) > 0 {
		// previous revisions, oldest first, as the pass saw them; the newest (current) one is never pruned
		if len(start) == 0 {
			return Violf("C08", "prune-of-unknown-revision", "pass %d deleted %v", pv.P.ID, deleted)
		}
		newest := start[len(start)-1]
		prev := start[:len(start)-1]
		allowed := int64(len(prev)) - limit
		if allowed < 0 {
			allowed = 0
		}
		sort.Strings(deleted)
		var want []string
		for i := 0; i < len(prev) && int64(i) < allowed; i++ {
			want = append(want, kubesim.MetaString(prev[i], "name"))
		}
		for _, d := range deleted {
			if d == kubesim.MetaString(newest, "name") {
				return Violf("C08", "current-revision-pruned", "pass %d: history pruning deleted the current revision %s", pv.P.ID, d)
			}
			found := false
			for _, wname := range want {
				if wname == d {
					found = true
				}
			}
			if !found {
				return Violf("C08", "prune-beyond-limit",
					"pass %d: history pruning deleted %s; with revisionHistoryLimit=%d and previous revisions %v only %v may be deleted", pv.P.ID, d, limit, setNames(prev), want)
			}
		}
	}
	return nil
}

func setNames(sets []map[string]any) []string {
	var out []string
	for _, o := range sets {
		out = append(out, kubesim.MetaString(o, "name"))
	}
	return out
}
