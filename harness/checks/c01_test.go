package checks

import (
	"testing"

	"pgregory.net/rapid"

	"package-operator.run/verifharness/engine"
)

var allCPs = []string{"", "Prevent", "IfNoController", "None"}

// genChainWorld draws 1-3 hand-made ObjectSets forming (partial) previous-chains over a shared pool,
// interleaved with reconciles and third-party ownership changes between passes.
func genChainWorld(t *rapid.T, prop string, opts SetGenOpts, extra func(t *rapid.T, sc *Scenario)) *Scenario {
	return genChainWorldTP(t, prop, opts, extra, true)
}

// genChainWorldTP: fullTP=false restricts third-party ownership edits to foreign owners without a
// revision annotation (no tampering with PKO's own bookkeeping).
func genChainWorldTP(t *rapid.T, prop string, opts SetGenOpts, extra func(t *rapid.T, sc *Scenario), fullTP bool) *Scenario {
	sc := &Scenario{Prop: prop}
	sc.Force = rapid.IntRange(0, 11).Draw(t, "force") == 0
	nsets := rapid.IntRange(1, 3).Draw(t, "nsets")
	created := 0
	n := rapid.IntRange(6, 36).Draw(t, "nsteps")
	for i := 0; i < n; i++ {
		k := rapid.IntRange(0, 11).Draw(t, "kind")
		switch {
		case created < nsets && (k <= 1 || created == 0):
			set := GenSet(t, opts)
			if rapid.IntRange(0, 9).Draw(t, "pkolabel") == 0 {
				set.PkgLabel = "package-operator"
			}
			if created > 0 {
				if opts.ChainBias && rapid.IntRange(0, 3).Draw(t, "fullchain") > 0 {
					for j := 0; j < created; j++ {
						set.Previous = append(set.Previous, j)
					}
				} else {
					np := rapid.IntRange(0, created).Draw(t, "nprev")
					for j := 0; j < np; j++ {
						set.Previous = append(set.Previous, rapid.IntRange(0, created-1).Draw(t, "prev"))
					}
				}
			}
			sc.Steps = append(sc.Steps, Step{Op: "createSet", Set: &set})
			created++
		case k <= 6:
			sc.Steps = append(sc.Steps, GenReconcile(t, []string{engine.CtrlObjectSet, engine.CtrlObjectSet, engine.CtrlObjectSetPhase, engine.CtrlRemotePhase}))
		case k <= 8:
			if !fullTP {
				sc.Steps = append(sc.Steps, Step{Op: "tpOwn",
					I: genPoolIdx(t, opts.PoolSize),
					J: rapid.IntRange(0, 2).Draw(t, "ownstate"),
					S: rapid.SampledFrom([]string{"", "", "nocache"}).Draw(t, "lbl")})
				continue
			}
			sc.Steps = append(sc.Steps, Step{Op: "tpOwn",
				I: genPoolIdx(t, opts.PoolSize),
				J: rapid.IntRange(0, len(OwnStates)*3-1).Draw(t, "ownstate"),
				K: rapid.IntRange(0, len(RevStates)-1).Draw(t, "revstate"),
				S: rapid.SampledFrom([]string{"", "", "", "pkolabel", "otherlabel", "nocache"}).Draw(t, "lbl")})
		case k == 9:
			sc.Steps = append(sc.Steps, Step{Op: "widget", I: rapid.IntRange(0, 2).Draw(t, "w"), J: rapid.IntRange(0, len(WidgetStates)-1).Draw(t, "state")})
		case k == 10:
			sc.Steps = append(sc.Steps, Step{Op: "tpDelete", I: genPoolIdx(t, opts.PoolSize)})
		default:
			if extra != nil {
				extra(t, sc)
			} else {
				sc.Steps = append(sc.Steps, Step{Op: "quiesce"})
			}
		}
	}
	return sc
}

// genC01RecreatedPhase: a directed family: a revision with delegated phases is rolled out, a third party deletes one of its
// ObjectSetPhase objects (PKO restores it under the same name, with a new uid), then a successor declaring it as previous
// arrives and has to take over the objects now controlled by the restored phase object.
func genC01RecreatedPhase(t *rapid.T) *Scenario {
	sc := &Scenario{Prop: "C01"}
	s0 := GenSet(t, SetGenOpts{AllowClass: true, Classes: []string{engine.ClassDefault}, PoolSize: 4, MaxObjs: 2, MaxPhases: 2})
	for i := range s0.Phases {
		if rapid.IntRange(0, 3).Draw(t, "delegate") > 0 {
			s0.Phases[i].Class = engine.ClassDefault
		}
	}
	s0.Probes = nil
	sc.Steps = append(sc.Steps, Step{Op: "createSet", Set: &s0}, Step{Op: "quiesce"})
	for i := rapid.IntRange(1, 2).Draw(t, "ndelete"); i > 0; i-- {
		sc.Steps = append(sc.Steps, Step{Op: "tpDeletePhase", I: rapid.IntRange(0, 3).Draw(t, "phase")})
		if rapid.IntRange(0, 3).Draw(t, "settle") > 0 {
			sc.Steps = append(sc.Steps, Step{Op: "quiesce"})
		}
	}
	s1 := s0
	s1.Phases = nil
	for _, ph := range s0.Phases {
		p2 := ph
		p2.Class = rapid.SampledFrom([]string{"", engine.ClassDefault}).Draw(t, "class1")
		p2.Objs = nil
		for _, o := range ph.Objs {
			o.Variant++
			o.CP = rapid.SampledFrom(allCPs).Draw(t, "cp1")
			p2.Objs = append(p2.Objs, o)
		}
		s1.Phases = append(s1.Phases, p2)
	}
	s1.Previous = []int{0}
	sc.Steps = append(sc.Steps, Step{Op: "createSet", Set: &s1})
	ctrls := []string{engine.CtrlObjectSet, engine.CtrlObjectSet, engine.CtrlObjectSetPhase}
	for i := rapid.IntRange(0, 6).Draw(t, "nrec"); i > 0; i-- {
		sc.Steps = append(sc.Steps, GenReconcile(t, ctrls))
	}
	sc.Steps = append(sc.Steps, Step{Op: "quiesce"})
	return sc
}

// genC01SeveralPrevious: a directed family: three revisions, the newest declaring both others as previous (in either
// order); the object it has to take over is controlled by the one that is *not* last in that list, the other previous
// revision never had it.
func genC01SeveralPrevious(t *rapid.T) *Scenario {
	sc := &Scenario{Prop: "C01"}
	class := func() string { return rapid.SampledFrom([]string{"", "", engine.ClassDefault}).Draw(t, "class") }
	x := rapid.IntRange(0, 3).Draw(t, "x")
	s0 := SetSpec{Phases: []PhaseSpec{{Name: "p0", Class: class(), Objs: []ObjSpec{{Pool: x}}}}}
	s1 := SetSpec{Phases: []PhaseSpec{{Name: "p0", Class: class(), Objs: []ObjSpec{{Pool: x + 1}}}}}
	holder, other := 0, 1
	if rapid.Bool().Draw(t, "holderSecond") {
		// the holder of X is the middle revision, the oldest one never had it
		s0, s1 = s1, s0
		holder, other = 1, 0
	}
	if holder == 1 || rapid.Bool().Draw(t, "chained") {
		s1.Previous = []int{0}
	}
	sc.Steps = append(sc.Steps, Step{Op: "createSet", Set: &s0}, Step{Op: "quiesce"}, Step{Op: "createSet", Set: &s1}, Step{Op: "quiesce"})
	s2 := SetSpec{Phases: []PhaseSpec{{Name: "p0", Class: class(), Objs: []ObjSpec{{Pool: x, Variant: 1, CP: rapid.SampledFrom(allCPs).Draw(t, "cp")}}}}}
	// the holder is listed first, the revision that never had X last
	s2.Previous = []int{holder, other}
	if rapid.IntRange(0, 3).Draw(t, "holderLast") == 0 {
		s2.Previous = []int{other, holder}
	}
	sc.Steps = append(sc.Steps, Step{Op: "createSet", Set: &s2})
	ctrls := []string{engine.CtrlObjectSet, engine.CtrlObjectSet, engine.CtrlObjectSetPhase}
	for i := rapid.IntRange(0, 5).Draw(t, "nrec"); i > 0; i-- {
		sc.Steps = append(sc.Steps, GenReconcile(t, ctrls))
	}
	sc.Steps = append(sc.Steps, Step{Op: "quiesce"})
	return sc
}

func TestC01(t *testing.T) {
	st := NewStats("C01", "engine", "scenario = 1-3 hand-made ObjectSets (local/delegated phases incl. the annotation-strategy phase controller, all collisionProtection values, previous links, forced adoption on/off) + third parties creating/re-owning/relabelling pool objects between passes; non-trivial = a pass observed an existing object not controlled by its owner")
	opts := SetGenOpts{AllowClass: true, Classes: []string{engine.ClassDefault, engine.ClassDefault, engine.ClassRemote}, CPs: allCPs, PoolSize: 5, MaxObjs: 2, MaxPhases: 3}
	mk := func(sc *Scenario) (*Runner, *C01Monitor) {
		m := &C01Monitor{}
		return NewRunner(sc, m), m
	}
	CheckOrReplay(t, st, func(data []byte) (any, error) {
		return ReplayScenario(data, func(sc *Scenario) *Runner { r, _ := mk(sc); return r })
	}, func(rt *rapid.T) {
		// (a third party deleting an ObjectSetPhase object: PKO restores it under the same name with a new uid, and later
		// revisions have to recognise the restored phase object as part of their predecessor)
		if f := rapid.IntRange(0, 7).Draw(rt, "family"); f <= 1 {
			sc := genC01RecreatedPhase(rt)
			if f == 1 {
				sc = genC01SeveralPrevious(rt)
			}
			r, m := mk(sc)
			err := r.Run()
			st.Count("passes", int64(len(r.W.Passes)))
			for d, n := range m.Decisions {
				st.Count("decision:"+d, int64(n))
			}
			st.Case(sc, r.Labels["c01-observed-foreign"], append(r.LabelList(), "family-directed")...)
			st.Report(rt, sc, err)
			return
		}
		sc := genChainWorld(rt, "C01", opts, func(t *rapid.T, sc *Scenario) {
			if rapid.Bool().Draw(t, "deletePhase") {
				sc.Steps = append(sc.Steps, Step{Op: "tpDeletePhase", I: rapid.IntRange(0, 3).Draw(t, "phase")}, Step{Op: "quiesce"})
				return
			}
			sc.Steps = append(sc.Steps, Step{Op: "quiesce"})
		})
		r, m := mk(sc)
		err := r.Run()
		st.Count("passes", int64(len(r.W.Passes)))
		for d, n := range m.Decisions {
			st.Count("decision:"+d, int64(n))
		}
		st.Case(sc, r.Labels["c01-observed-foreign"], r.LabelList()...)
		st.Report(rt, sc, err)
	})
}

// TestC01Teardown covers the deletion clause of C01 ("... or deletes it only if ..."): teardown histories in which third parties
// change the ownership of objects, also between PKO's read of an object and its delete, judged by the delete rules of C05
// (preconditions pinned to the inspected version, which must show the owner as controller; changed objects survive).
func TestC01Teardown(t *testing.T) {
	st := NewStats("C01", "teardown", "scenario = teardown (delete, orphan delete, archive) of 1-2 ObjectSets whose objects third parties re-own, re-create, edit or strip of owners, including between PKO's read of an object and its delete of it; oracle = every delete carries uid+resourceVersion of the inspected version, that version shows the owner as controller, an object changed in between survives; non-trivial = an object changed between PKO's read and its write")
	opts := SetGenOpts{AllowClass: true, Classes: []string{engine.ClassDefault, engine.ClassDefault, engine.ClassRemote}, AllowCluster: true, PoolSize: 4, MaxObjs: 3, MaxPhases: 2}
	mk := func(sc *Scenario) *Runner { return NewRunner(sc, &C05Monitor{}) }
	CheckOrReplay(t, st, func(data []byte) (any, error) {
		v, err := ReplayScenario(data, mk)
		return v, remapProp(err, "C01")
	}, func(rt *rapid.T) {
		sc := genTeardownWorld(rt, "C01", opts, true)
		sc.Part = "teardown"
		r := mk(sc)
		err := remapProp(r.Run(), "C01")
		st.Count("passes", int64(len(r.W.Passes)))
		st.Case(sc, r.Labels["c05-changed-between-read-and-delete"] || r.Labels["c05-changed-between-read-and-patch"], r.LabelList()...)
		st.Report(rt, sc, err)
	})
}

// genPoolIdx draws a pool index among the first n native identities and the identities reserved for
// the annotation strategy.
func genPoolIdx(t *rapid.T, n int) int {
	x := rapid.IntRange(0, n+engine.RemotePoolSize-1).Draw(t, "obj")
	if x >= n {
		return engine.NativePoolSize + (x - n)
	}
	return x
}
