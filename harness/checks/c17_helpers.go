package checks

import corev1alpha1 "package-operator.run/apis/core/v1alpha1"

func internalProbeCEL(rule string) corev1alpha1.Probe {
	return corev1alpha1.Probe{CEL: &corev1alpha1.ProbeCELSpec{Rule: rule, Message: "m"}}
}
