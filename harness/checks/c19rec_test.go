package checks

import (
	"encoding/json"
	"testing"

	metav1 "k8s.io/apimachinery/pkg/apis/meta/v1"
	"k8s.io/apimachinery/pkg/apis/meta/v1/unstructured"
	"pgregory.net/rapid"
	"sigs.k8s.io/controller-runtime/pkg/client"

	corev1alpha1 "package-operator.run/apis/core/v1alpha1"
	"package-operator.run/verifharness/engine"
	"package-operator.run/verifharness/kubesim"
)

// c19RecCase: a workload object with an arbitrary status shape under an ObjectSet (probes + condition mappings,
// in-process or delegated phase) or as the target of an ObjectTemplate with arbitrary source items.
type c19RecCase struct {
	Part     string      `json:"part"`
	Kind     string      `json:"kind"` // objectset | phase | template
	Status   any         `json:"status"`
	Probes   []int       `json:"probes"`
	Mappings [][2]string `json:"mappings"`
	Items    [][2]string `json:"items"`
	SrcData  any         `json:"srcData"`
}

func normJSON(v any) any {
	switch x := v.(type) {
	case float64:
		if x == float64(int64(x)) {
			return int64(x)
		}
		return x
	case map[string]any:
		for k, e := range x {
			x[k] = normJSON(e)
		}
		return x
	case []any:
		for i, e := range x {
			x[i] = normJSON(e)
		}
		return x
	}
	return v
}

func genCondValue(t *rapid.T, field string) any {
	switch rapid.IntRange(0, 7).Draw(t, "cv-"+field) {
	case 0:
		return nil
	case 1:
		return float64(rapid.IntRange(0, 2).Draw(t, "cvn"))
	case 2:
		return true
	case 3:
		return map[string]any{"a": "b"}
	case 4:
		return []any{"x"}
	default:
		switch field {
		case "type":
			return rapid.SampledFrom([]string{"Available", "Ready", ""}).Draw(t, "cvt")
		case "status":
			return rapid.SampledFrom([]string{"True", "False", "Unknown", "bogus"}).Draw(t, "cvs")
		case "observedGeneration":
			return float64(rapid.IntRange(0, 2).Draw(t, "cvog"))
		}
		return rapid.SampledFrom([]string{"R", "", "some message"}).Draw(t, "cvm")
	}
}

func genStatusShape(t *rapid.T) any {
	switch rapid.IntRange(0, 9).Draw(t, "statusShape") {
	case 0:
		return genJSONValue(t, 2)
	case 1:
		return map[string]any{"conditions": genJSONValue(t, 2), "observedGeneration": genCondValue(t, "observedGeneration")}
	}
	st := map[string]any{}
	if rapid.IntRange(0, 2).Draw(t, "hasOG") > 0 {
		st["observedGeneration"] = genCondValue(t, "observedGeneration")
	}
	if rapid.IntRange(0, 3).Draw(t, "hasPhase") > 0 {
		st["phase"] = genCondValue(t, "phase")
		st["ready"] = genCondValue(t, "observedGeneration")
	}
	var conds []any
	for i := rapid.IntRange(0, 3).Draw(t, "nconds"); i > 0; i-- {
		if rapid.IntRange(0, 9).Draw(t, "condNotMap") == 0 {
			conds = append(conds, genJSONValue(t, 1))
			continue
		}
		c := map[string]any{}
		for _, f := range []string{"type", "status", "reason", "message", "observedGeneration"} {
			if rapid.IntRange(0, 4).Draw(t, "has-"+f) > 0 {
				c[f] = genCondValue(t, f)
			}
		}
		conds = append(conds, c)
	}
	if conds != nil || rapid.Bool().Draw(t, "emptyConds") {
		st["conditions"] = conds
	}
	return st
}

var c19Probes = []corev1alpha1.Probe{
	{Condition: &corev1alpha1.ProbeConditionSpec{Type: "Available", Status: "True"}},
	{Condition: &corev1alpha1.ProbeConditionSpec{Type: "", Status: ""}},
	{FieldsEqual: &corev1alpha1.ProbeFieldsEqualSpec{FieldA: ".status.ready", FieldB: ".spec.size"}},
	{FieldsEqual: &corev1alpha1.ProbeFieldsEqualSpec{FieldA: ".status.conditions", FieldB: ".status.phase"}},
	{FieldsEqual: &corev1alpha1.ProbeFieldsEqualSpec{FieldA: "", FieldB: "."}},
	{FieldsEqual: &corev1alpha1.ProbeFieldsEqualSpec{FieldA: ".status..x", FieldB: ".status.conditions.0"}},
	{CEL: &corev1alpha1.ProbeCELSpec{Rule: "self.status.phase == \"Ready\"", Message: "m"}},
	{CEL: &corev1alpha1.ProbeCELSpec{Rule: "self.status.conditions.exists(c, c.type == \"Available\" && c.status == \"True\")", Message: "m"}},
	{CEL: &corev1alpha1.ProbeCELSpec{Rule: "self.status.conditions[0].observedGeneration == self.metadata.generation", Message: ""}},
	{CEL: &corev1alpha1.ProbeCELSpec{Rule: "size(self.status) > 0", Message: "m"}},
	{},
}

func runC19Rec(c *c19RecCase) (copied bool, err error) {
	r := NewRunner(&Scenario{Prop: "C19"})
	w := r.W
	widget := &unstructured.Unstructured{Object: map[string]any{"spec": map[string]any{"size": int64(1)}}}
	widget.SetGroupVersionKind(engine.GVKWidget)
	widget.SetName("w-0")
	setStatus := func() {
		w.ActAs("workload", func(cl client.Client) {
			for _, k := range w.ListKeys(engine.WidgetGroup, "Widget") {
				cur := w.Store.Peek(k)
				if cur == nil {
					continue
				}
				u := engine.U(cur)
				if c.Status == nil {
					delete(u.Object, "status")
				} else {
					b, _ := json.Marshal(c.Status)
					var v any
					_ = json.Unmarshal(b, &v)
					u.Object["status"] = normJSON(v)
				}
				_ = cl.Status().Update(w.Ctx, u)
			}
		})
	}
	var passes []struct {
		ctrl string
		key  kubesim.Key
	}
	switch c.Kind {
	case "template":
		w.ActAs("user", func(cl client.Client) {
			src := &unstructured.Unstructured{Object: map[string]any{"apiVersion": "v1", "kind": "ConfigMap"}}
			src.SetName("src-0")
			src.SetNamespace(engine.NSMain)
			b, _ := json.Marshal(c.SrcData)
			var v any
			_ = json.Unmarshal(b, &v)
			if v != nil {
				src.Object["data"] = normJSON(v)
			}
			_ = cl.Create(w.Ctx, src)
			ot := &corev1alpha1.ObjectTemplate{}
			ot.Name, ot.Namespace = "ot", engine.NSMain
			ot.Spec.Template = "apiVersion: verif.example/v1\nkind: Widget\nmetadata:\n  name: w-0\nspec:\n  size: 1\n  v: {{ .config | toJson | quote }}\n"
			s := corev1alpha1.ObjectTemplateSource{APIVersion: "v1", Kind: "ConfigMap", Name: "src-0"}
			for _, it := range c.Items {
				s.Items = append(s.Items, corev1alpha1.ObjectTemplateSourceItem{Key: it[0], Destination: it[1]})
			}
			ot.Spec.Sources = []corev1alpha1.ObjectTemplateSource{s}
			_ = cl.Create(w.Ctx, ot)
		})
		k := kubesim.Key{Group: engine.PKOGroup, Kind: "ObjectTemplate", Namespace: engine.NSMain, Name: "ot"}
		passes = append(passes, struct {
			ctrl string
			key  kubesim.Key
		}{engine.CtrlObjectTemplate, k})
	default:
		w.ActAs("user", func(cl client.Client) {
			os := &corev1alpha1.ObjectSet{}
			os.Name, os.Namespace = "os-0", engine.NSMain
			obj := corev1alpha1.ObjectSetObject{Object: *widget}
			for _, m := range c.Mappings {
				obj.ConditionMappings = append(obj.ConditionMappings, corev1alpha1.ConditionMapping{SourceType: m[0], DestinationType: m[1]})
			}
			ph := corev1alpha1.ObjectSetTemplatePhase{Name: "ph0", Objects: []corev1alpha1.ObjectSetObject{obj}}
			if c.Kind == "phase" {
				ph.Class = "default"
			}
			os.Spec.Phases = []corev1alpha1.ObjectSetTemplatePhase{ph}
			var probes []corev1alpha1.Probe
			for _, pi := range c.Probes {
				probes = append(probes, c19Probes[mod(pi, len(c19Probes))])
			}
			os.Spec.AvailabilityProbes = []corev1alpha1.ObjectSetProbe{{
				Probes:   probes,
				Selector: corev1alpha1.ProbeSelector{Kind: &corev1alpha1.PackageProbeKindSpec{Group: engine.WidgetGroup, Kind: "Widget"}},
			}}
			_ = cl.Create(w.Ctx, os)
		})
		k := kubesim.Key{Group: engine.PKOGroup, Kind: "ObjectSet", Namespace: engine.NSMain, Name: "os-0"}
		passes = append(passes, struct {
			ctrl string
			key  kubesim.Key
		}{engine.CtrlObjectSet, k})
		if c.Kind == "phase" {
			passes = append(passes, struct {
				ctrl string
				key  kubesim.Key
			}{engine.CtrlObjectSetPhase, kubesim.Key{Group: engine.PKOGroup, Kind: "ObjectSetPhase", Namespace: engine.NSMain, Name: "os-0-ph0"}})
		}
	}
	for round := 0; round < 3; round++ {
		for _, p := range passes {
			if w.Store.Peek(p.key) == nil {
				continue
			}
			if _, err := r.Reconcile(p.ctrl, p.key); err != nil {
				return copied, err
			}
		}
		if round == 0 {
			setStatus()
		}
	}
	// did anything of the workload status reach the owner's conditions?
	for _, p := range passes {
		if o := w.Store.Peek(p.key); o != nil {
			for t := range engine.Conditions(o) {
				for _, m := range c.Mappings {
					if t == m[1] {
						copied = true
					}
				}
				if c.Kind == "template" && t != "Invalid" {
					copied = true
				}
			}
		}
	}
	_ = metav1.ConditionTrue
	return copied, nil
}

func TestC19Reconcile(t *testing.T) {
	st := NewStats("C19", "reconcile", "scenario = real ObjectSet / ObjectSetPhase / ObjectTemplate controller over the API model; a Widget whose .status a third party sets to a generated shape (conditions that are not lists, entries that are not maps, type/status/reason/message/observedGeneration missing or of the wrong type, arbitrary JSON) is probed (condition / fieldsEqual with odd paths / CEL), condition-mapped, or is the target of an ObjectTemplate whose source items carry generated key / destination strings (empty, without leading dot, odd JSONPath) over generated source data; three reconcile rounds; oracle = no reconcile panics; non-trivial = a workload condition was copied to the owner's status")
	CheckOrReplay(t, st, func(data []byte) (any, error) {
		var c c19RecCase
		if err := json.Unmarshal(data, &c); err != nil {
			return nil, err
		}
		_, err := runC19Rec(&c)
		return &c, err
	}, func(rt *rapid.T) {
		c := &c19RecCase{Part: "reconcile", Kind: rapid.SampledFrom([]string{"objectset", "phase", "template", "template"}).Draw(rt, "kind"), Status: genStatusShape(rt)}
		for i := rapid.IntRange(0, 3).Draw(rt, "nprobes"); i > 0; i-- {
			c.Probes = append(c.Probes, rapid.IntRange(0, len(c19Probes)-1).Draw(rt, "probe"))
		}
		for i := rapid.IntRange(0, 3).Draw(rt, "nmap"); i > 0; i-- {
			c.Mappings = append(c.Mappings, [2]string{rapid.SampledFrom([]string{"Available", "Ready", ""}).Draw(rt, "msrc"), rapid.SampledFrom([]string{"my/Available", "my/Ready", "other.io/Up", "x", ""}).Draw(rt, "mdst")})
		}
		if c.Kind != "template" && rapid.IntRange(0, 3).Draw(rt, "wellformed") == 0 {
			// a well-formed workload status with several conditions, each mapped (some twice): the owner's own status then holds
			// several mapped conditions, which every later pass deletes and writes again
			c.Status = map[string]any{"observedGeneration": int64(1), "conditions": []any{
				map[string]any{"type": "Available", "status": "True", "reason": "R", "message": "m", "observedGeneration": int64(1)},
				map[string]any{"type": "Ready", "status": rapid.SampledFrom([]string{"True", "False"}).Draw(rt, "ready"), "reason": "R", "message": "m", "observedGeneration": int64(1)},
			}}
			c.Mappings = [][2]string{{"Available", "my/Available"}, {"Ready", "my/Ready"}}
			if rapid.Bool().Draw(rt, "third") {
				c.Mappings = append(c.Mappings, [2]string{"Available", "other.io/Up"})
			}
		}
		if c.Kind == "template" {
			for i := rapid.IntRange(0, 3).Draw(rt, "nitems"); i > 0; i-- {
				c.Items = append(c.Items, [2]string{
					rapid.SampledFrom([]string{".data.k0", ".data", ".data.missing", "", ".", "data.k0", ".data['k0']", "{.data.k0}", ".data.*", "..k0", ".metadata.name", ".data.k0[", ".data.list[0]", ".data.list[5]", ".data.list[*]"}).Draw(rt, "ikey"),
					rapid.SampledFrom([]string{".k0", ".a.b", "", ".", "k0", "..", ".a..b", ".k0.sub", " "}).Draw(rt, "idest")})
			}
			c.SrcData = rapid.SampledFrom([]any{map[string]any{"k0": "v0"}, map[string]any{"k0": "v0", "list": []any{"a", "b"}}, map[string]any{}, nil, map[string]any{"k0": map[string]any{"sub": "x"}}}).Draw(rt, "srcdata")
		}
		ok, err := runC19Rec(c)
		st.Case(c, ok)
		st.Report(rt, c, err)
	})
}

// TestC19Packages: the Package / ObjectDeployment / ObjectSet controllers over generated package images (valid and invalid:
// broken structure, validation failures, schema-violating configuration, platform / version (Kubernetes and OpenShift) /
// uniqueness constraints) on clusters with and without OpenShift, with API faults and restarts; oracle = no reconcile
// panics (Runner.Reconcile turns a recovered panic into a C19 violation keyed by the panicking frame).
func TestC19Packages(t *testing.T) {
	st := NewStats("C19", "packages", "scenario = real Package controller + PackageDeployer with a scripted puller over a pool of generated package images (valid; no/duplicate manifest; object/template/YAML validation failures; required config; platform, Kubernetes-version, OpenShift-version and uniqueness constraints; unsupported scope), Package spec edits, pull failures, environment changes (plain Kubernetes / OpenShift, several versions), API faults, restarts; oracle = no controller pass panics; non-trivial = a package with a constraint or a defect was reconciled")
	CheckOrReplay(t, st, func(data []byte) (any, error) {
		return ReplayScenario(data, func(sc *Scenario) *Runner { return NewRunner(sc) })
	}, func(rt *rapid.T) {
		sc := genPackageWorld(rt, "C19", true, []string{"", "EachObject"})
		sc.Part = "packages"
		r := NewRunner(sc)
		err := r.Run()
		nt := false
		for _, d := range sc.Pkgs {
			if d.Broken != "" || d.RequireOpenShift || d.KubeRange != "" || d.OpenShiftRange != "" || d.Unique || d.ConfigRequired {
				nt = true
			}
		}
		st.Case(sc, nt, r.LabelList()...)
		st.Report(rt, sc, err)
	})
}
