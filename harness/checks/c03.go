package checks

import (
	"fmt"
	"strings"

	"package-operator.run/verifharness/engine"
	"package-operator.run/verifharness/kubesim"
	"package-operator.run/verifharness/refmodel"
)

// C03Monitor: phases roll out in order, each gated on the probes of the previous.
// Evaluated on ObjectSet / ClusterObjectSet passes whose owner was read active (not paused,
// archived or deleting).
type C03Monitor struct {
	// Stats
	NontrivialPasses int
	Passes           int
}

// phaseFails computes, from the states the pass observed, whether the phase fails its gate.
func phaseFails(r *Runner, pv *PassView, ph PhaseView, ownerName, ownerNS string, probes []refmodel.RObjectSetProbe, cluster bool) bool {
	if ph.Class != "" {
		pk := kubesim.Key{Group: engine.PKOGroup, Kind: setKind(cluster, "ObjectSetPhase"), Namespace: ownerNS, Name: ownerName + "-" + ph.Name}
		po := pv.Observed[pk]
		if po == nil {
			return true
		}
		c, ok := engine.Conditions(po)["Available"]
		if !ok || c.ObservedGeneration != engine.Generation(po) || c.Status != "True" {
			return true
		}
		return false
	}
	for _, k := range ph.Keys {
		o := pv.Observed[k]
		if o == nil {
			return true
		}
		if ok, _ := refmodel.Eval(probes, o); !ok {
			return true
		}
	}
	return false
}

func (m *C03Monitor) AfterPass(r *Runner, pv *PassView) error {
	if pv.P.Controller != engine.CtrlObjectSet && pv.P.Controller != engine.CtrlClusterObjectSet {
		return nil
	}
	if pv.Owner == nil || OwnerPaused(pv.Owner) || OwnerArchived(pv.Owner) || OwnerDeleting(pv.Owner) {
		return nil
	}
	if pv.P.Crashed {
		return nil
	}
	cluster := pv.P.Controller == engine.CtrlClusterObjectSet
	ownerName := kubesim.MetaString(pv.Owner, "name")
	ownerNS := kubesim.MetaString(pv.Owner, "namespace")
	phases := OwnerPhases(r.W.Store, pv.Owner)
	probes := r.ProbesFor(pv.Owner)
	m.Passes++
	// phase index per key, incl. the ObjectSetPhase object of delegated phases
	phaseOf := map[kubesim.Key]int{}
	for i, ph := range phases {
		for _, k := range ph.Keys {
			if ph.Class == "" {
				phaseOf[k] = i
			}
		}
		if ph.Class != "" {
			phaseOf[kubesim.Key{Group: engine.PKOGroup, Kind: setKind(cluster, "ObjectSetPhase"), Namespace: ownerNS, Name: ownerName + "-" + ph.Name}] = i
		}
	}
	first := -1
	for i, ph := range phases {
		if phaseFails(r, pv, ph, ownerName, ownerNS, probes, cluster) {
			first = i
			break
		}
	}
	if first >= 0 && first < len(phases)-1 && len(phases) >= 2 {
		m.NontrivialPasses++
		r.Labels["c03-nonlast-phase-fails"] = true
	}
	last := -1
	for _, c := range pv.Calls {
		if c.Actor != "pko" || !c.IsWrite() || c.DryRun {
			continue
		}
		if c.Verb != "create" && c.Verb != "patch" && c.Verb != "update" {
			continue
		}
		pi, ok := phaseOf[c.Key]
		if !ok {
			continue
		}
		if first >= 0 && pi > first {
			return Violf("C03", "write-after-failing-phase",
				"pass %d of %s wrote %s (phase %d %q, verb %s) although phase %d %q failed its gate in the same pass",
				pv.P.ID, ownerName, c.Key, pi, phases[pi].Name, c.Verb, first, phases[first].Name)
		}
		if pi < last {
			return Violf("C03", "phase-order",
				"pass %d of %s wrote %s of phase %d after writing phase %d", pv.P.ID, ownerName, c.Key, pi, last)
		}
		last = pi
	}
	// status: only for passes that completed normally
	if pv.P.Err != "" || len(pv.StatusWrites) == 0 {
		return nil
	}
	sw := pv.StatusWrites[len(pv.StatusWrites)-1]
	conds := engine.Conditions(asMap(sw.Body))
	av, has := conds["Available"]
	// passes that stopped before reconciling phases (revision not yet known, preflight, collision) are not judged here
	if !has || (av.Reason != "ProbeFailure" && av.Reason != "Available") {
		return nil
	}
	if !pv.P.Result.IsZero() {
		return nil
	}
	if first >= 0 {
		if av.Status != "False" || av.Reason != "ProbeFailure" {
			return Violf("C03", "available-despite-failing-phase",
				"pass %d of %s reported Available=%s/%s although phase %q failed its gate", pv.P.ID, ownerName, av.Status, av.Reason, phases[first].Name)
		}
		want := fmt.Sprintf("Phase %q failed", phases[first].Name)
		if !strings.HasPrefix(av.Message, want) {
			return Violf("C03", "wrong-phase-named",
				"pass %d of %s: first failing phase is %q but the condition says %q", pv.P.ID, ownerName, phases[first].Name, trunc(av.Message, 120))
		}
	} else if av.Status != "True" {
		return Violf("C03", "unavailable-despite-all-passing",
			"pass %d of %s reported Available=%s/%s (%s) although every phase passed on the observed states", pv.P.ID, ownerName, av.Status, av.Reason, trunc(av.Message, 120))
	}
	return nil
}
