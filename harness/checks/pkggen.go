package checks

import (
	"fmt"
	"sort"
	"strings"

	"pgregory.net/rapid"
)

// PkgObj describes one object document of a generated package.
type PkgObj struct {
	Kind    string `json:"kind"` // ConfigMap | Widget
	Name    string `json:"name"`
	Phase   string `json:"phase"`
	Cond    string `json:"cond,omitempty"`    // CEL condition annotation: "", "true", "false" or "cond.<name>"
	CP      string `json:"cp,omitempty"`      // collision protection annotation
	CondMap bool   `json:"condMap,omitempty"` // condition-map annotation
	// CondMap2: the condition-map annotation has a second line (the same workload condition mapped to a second name), so the
	// owners carry two mapped conditions
	CondMap2 bool `json:"condMap2,omitempty"`
	// PhaseForm: how the phase annotation value is written: "" exact | "lead" (" ph0") | "trail" ("ph0 ") | "block"
	// (YAML block scalar, i.e. "ph0\n"). Anything but the exact name does not name a phase of the manifest.
	PhaseForm string `json:"phaseForm,omitempty"`
	Keep      bool   `json:"keep,omitempty"` // an unrelated annotation that must survive
	// Tmpl selects templated content (only honoured in template files): "", "config", "helper", "quote", "b64", "default", "toJson"
	Tmpl    string `json:"tmpl,omitempty"`
	Variant int    `json:"variant,omitempty"`
}

// PkgFile is one file with 0..n YAML documents.
type PkgFile struct {
	Path     string   `json:"path"`
	Template bool     `json:"template,omitempty"`
	Objs     []PkgObj `json:"objs"`
	// EmptyDocs adds empty documents between objects (must be ignored).
	EmptyDocs bool `json:"emptyDocs,omitempty"`
}

// PkgCond is a named CEL condition of the manifest.
type PkgCond struct {
	Name string `json:"name"`
	Expr string `json:"expr"` // "true" | "false" | "config.flag == true" | "config.flag != true" | "has(environment.openShift)"
}

// PkgCondPath is a conditional path entry.
type PkgCondPath struct {
	Glob string `json:"glob"`
	Expr string `json:"expr"` // cond.<name> | true | false
}

// PkgPhase is a manifest phase.
type PkgPhase struct {
	Name  string `json:"name"`
	Class string `json:"class,omitempty"`
}

// PkgDesc is the structured description a package is built from.
type PkgDesc struct {
	Name      string        `json:"name"`
	Scopes    []string      `json:"scopes"`
	Phases    []PkgPhase    `json:"phases"`
	Files     []PkgFile     `json:"files"`
	Conds     []PkgCond     `json:"conds,omitempty"`
	CondPaths []PkgCondPath `json:"condPaths,omitempty"`
	Probes    bool          `json:"probes,omitempty"`
	// Constraints (C16)
	RequireOpenShift bool   `json:"requireOpenShift,omitempty"`
	KubeRange        string `json:"kubeRange,omitempty"`
	// OpenShiftRange: a platformVersion constraint on OpenShift (only evaluated on OpenShift clusters)
	OpenShiftRange string `json:"openShiftRange,omitempty"`
	Unique         bool   `json:"unique,omitempty"`
	// ConfigRequired makes config.label a required property.
	ConfigRequired bool `json:"configRequired,omitempty"`
	// SchemaVariant > 0 adds the config property "extra" (string) with the default "d<variant>" to the manifest's schema:
	// packages of the same name may differ in their configuration schema (an update that adds a property).
	SchemaVariant int `json:"schemaVariant,omitempty"`
	// Components > 0 makes the package a multi-component package (spec.components: {}) with that many sub-component
	// packages under components/<name>/; the root package consists of every file outside that folder - including files
	// and folders whose names merely start with "components".
	Components int `json:"components,omitempty"`
	// Broken injects a structural / validation defect: "", "no-manifest", "two-manifests", "bad-phase",
	// "missing-phase-annotation", "duplicate-object", "bad-yaml", "bad-template", "missing-key-template"
	Broken string `json:"broken,omitempty"`
}

// PkgCtx is the render context: configuration and environment.
type PkgCtx struct {
	Label    string `json:"label"`
	HasLabel bool   `json:"hasLabel"`
	Flag     bool   `json:"flag"`
	// NoFlag: the configuration has no "flag" key at all (CEL conditions reading config.flag then cannot be evaluated)
	NoFlag      bool   `json:"noFlag,omitempty"`
	OpenShift   bool   `json:"openShift,omitempty"`
	KubeVersion string `json:"kubeVersion"`
	PkgName     string `json:"pkgName"`
	PkgNS       string `json:"pkgNS"`
	// ExtraDefault is filled in by Expected(): the value config.extra has after admission (schema default), "" if the schema
	// has no such property (pruned).
	ExtraDefault string `json:"-"`
}

func (c PkgCtx) evalExpr(e string, conds map[string]bool) bool {
	switch e {
	case "true":
		return true
	case "false":
		return false
	case "config.flag == true":
		return c.Flag
	case "config.flag != true":
		return !c.Flag
	case "has(environment.openShift)":
		return c.OpenShift
	}
	if strings.HasPrefix(e, "cond.") {
		return conds[strings.TrimPrefix(e, "cond.")]
	}
	panic("unknown expr " + e)
}

const helperFile = "_helpers.gotmpl"

const helperContent = `{{- define "hlp.name" -}}
helper-{{ .config.label }}
{{- end -}}
`

// templatedValue returns (template text, expected rendered value) for an object's content field.
func (o PkgObj) templatedValue(c PkgCtx) (string, string) {
	switch o.Tmpl {
	case "config":
		return `{{ .config.label }}`, c.Label
	case "helper":
		return `{{ include "hlp.name" . }}`, "helper-" + c.Label
	case "quote":
		return `{{ .config.label | quote }}`, c.Label // YAML parses the quoted string back to the value
	case "b64":
		return `{{ .config.label | b64enc }}`, b64(c.Label)
	case "default":
		return `{{ default "dflt" .config.label }}`, c.Label
	case "toJson":
		return `{{ .package.metadata.name | toJson }}`, c.PkgName
	case "upper":
		return `{{ .config.label | upper }}`, strings.ToUpper(c.Label)
	case "extra":
		if c.ExtraDefault == "" {
			return `{{ get .config "extra" | default "none" }}`, "none"
		}
		return `{{ get .config "extra" | default "none" }}`, c.ExtraDefault
	}
	return "", ""
}

func b64(s string) string {
	const tbl = "ABCDEFGHIJKLMNOPQRSTUVWXYZabcdefghijklmnopqrstuvwxyz0123456789+/"
	b := []byte(s)
	var out []byte
	for i := 0; i < len(b); i += 3 {
		var n uint32
		rem := len(b) - i
		switch {
		case rem >= 3:
			n = uint32(b[i])<<16 | uint32(b[i+1])<<8 | uint32(b[i+2])
			out = append(out, tbl[n>>18&63], tbl[n>>12&63], tbl[n>>6&63], tbl[n&63])
		case rem == 2:
			n = uint32(b[i])<<16 | uint32(b[i+1])<<8
			out = append(out, tbl[n>>18&63], tbl[n>>12&63], tbl[n>>6&63], '=')
		default:
			n = uint32(b[i]) << 16
			out = append(out, tbl[n>>18&63], tbl[n>>12&63], '=', '=')
		}
	}
	return string(out)
}

func (o PkgObj) yaml(templated bool, c PkgCtx) string {
	var sb strings.Builder
	value := fmt.Sprintf("static-%d", o.Variant)
	if templated && o.Tmpl != "" {
		value, _ = o.templatedValue(c)
		if o.Tmpl != "quote" && o.Tmpl != "toJson" {
			value = `"` + value + `"`
		}
	} else {
		value = `"` + value + `"`
	}
	switch o.Kind {
	case "Widget":
		sb.WriteString("apiVersion: verif.example/v1\nkind: Widget\n")
	default:
		sb.WriteString("apiVersion: v1\nkind: ConfigMap\n")
	}
	sb.WriteString("metadata:\n  name: " + o.Name + "\n  labels:\n    app: pkg\n  annotations:\n")
	if o.Phase != "" {
		switch o.PhaseForm {
		case "lead":
			sb.WriteString("    package-operator.run/phase: \" " + o.Phase + "\"\n")
		case "trail":
			sb.WriteString("    package-operator.run/phase: \"" + o.Phase + " \"\n")
		case "block":
			sb.WriteString("    package-operator.run/phase: |\n      " + o.Phase + "\n")
		default:
			sb.WriteString("    package-operator.run/phase: " + o.Phase + "\n")
		}
	}
	if o.Cond != "" {
		sb.WriteString("    package-operator.run/condition: \"" + o.Cond + "\"\n")
	}
	if o.CP != "" {
		sb.WriteString("    package-operator.run/collision-protection: " + o.CP + "\n")
	}
	if o.CondMap {
		sb.WriteString("    package-operator.run/condition-map: |\n      Available => my-prefix/Available\n")
		if o.CondMap2 {
			sb.WriteString("      Available => other-prefix/Up\n")
		}
	}
	if o.Keep {
		sb.WriteString("    example.com/keep: \"yes\"\n")
	}
	if o.Phase == "" && o.Cond == "" && o.CP == "" && !o.CondMap && !o.Keep {
		sb.WriteString("    example.com/filler: x\n")
	}
	switch o.Kind {
	case "Widget":
		sb.WriteString("spec:\n  size: " + fmt.Sprint(o.Variant) + "\n  text: " + value + "\n")
	default:
		sb.WriteString("data:\n  v: " + value + "\n")
	}
	return sb.String()
}

// expectedObject is the object R-render expects in the ObjectSet template (JSON shape).
func (o PkgObj) expectedObject(templated bool, c PkgCtx, pkgManifestName string) map[string]any {
	value := fmt.Sprintf("static-%d", o.Variant)
	if templated && o.Tmpl != "" {
		_, value = o.templatedValue(c)
	}
	md := map[string]any{
		"name": o.Name,
		"labels": map[string]any{
			"app":                           "pkg",
			"package-operator.run/package":  pkgManifestName,
			"package-operator.run/instance": c.PkgName,
		},
	}
	ann := map[string]any{}
	if o.Keep {
		ann["example.com/keep"] = "yes"
	}
	if o.Phase == "" && o.Cond == "" && o.CP == "" && !o.CondMap && !o.Keep {
		ann["example.com/filler"] = "x"
	}
	if len(ann) > 0 {
		md["annotations"] = ann
	}
	obj := map[string]any{"metadata": md}
	switch o.Kind {
	case "Widget":
		obj["apiVersion"], obj["kind"] = "verif.example/v1", "Widget"
		obj["spec"] = map[string]any{"size": int64(o.Variant), "text": value}
	default:
		obj["apiVersion"], obj["kind"] = "v1", "ConfigMap"
		obj["data"] = map[string]any{"v": value}
	}
	entry := map[string]any{"object": obj}
	if o.CP != "" {
		entry["collisionProtection"] = o.CP
	}
	if o.CondMap {
		cm := []any{map[string]any{"sourceType": "Available", "destinationType": "my-prefix/Available"}}
		if o.CondMap2 {
			cm = append(cm, map[string]any{"sourceType": "Available", "destinationType": "other-prefix/Up"})
		}
		entry["conditionMappings"] = cm
	}
	return entry
}

// ManifestYAML renders the PackageManifest.
func (d PkgDesc) ManifestYAML() string {
	var sb strings.Builder
	sb.WriteString("apiVersion: manifests.package-operator.run/v1alpha1\nkind: PackageManifest\nmetadata:\n  name: " + d.Name + "\nspec:\n  scopes:\n")
	for _, s := range d.Scopes {
		sb.WriteString("  - " + s + "\n")
	}
	sb.WriteString("  phases:\n")
	for _, p := range d.Phases {
		sb.WriteString("  - name: " + p.Name + "\n")
		if p.Class != "" {
			sb.WriteString("    class: " + p.Class + "\n")
		}
	}
	if d.Probes {
		sb.WriteString("  availabilityProbes:\n  - probes:\n    - condition:\n        type: Available\n        status: \"True\"\n    selector:\n      kind:\n        group: verif.example\n        kind: Widget\n")
	}
	if d.Components > 0 {
		sb.WriteString("  components: {}\n")
	}
	sb.WriteString("  config:\n    openAPIV3Schema:\n      type: object\n      properties:\n        label:\n          type: string\n        flag:\n          type: boolean\n")
	if d.SchemaVariant > 0 {
		sb.WriteString(fmt.Sprintf("        extra:\n          type: string\n          default: d%d\n", d.SchemaVariant))
	}
	if d.ConfigRequired {
		sb.WriteString("      required:\n      - label\n")
	}
	if len(d.Conds) > 0 || len(d.CondPaths) > 0 {
		sb.WriteString("  filter:\n")
		if len(d.Conds) > 0 {
			sb.WriteString("    conditions:\n")
			for _, c := range d.Conds {
				sb.WriteString("    - name: " + c.Name + "\n      expression: \"" + c.Expr + "\"\n")
			}
		}
		if len(d.CondPaths) > 0 {
			sb.WriteString("    paths:\n")
			for _, c := range d.CondPaths {
				sb.WriteString("    - glob: \"" + c.Glob + "\"\n      expression: \"" + c.Expr + "\"\n")
			}
		}
	}
	if d.RequireOpenShift || d.KubeRange != "" || d.Unique || d.OpenShiftRange != "" {
		sb.WriteString("  constraints:\n")
		if d.RequireOpenShift {
			sb.WriteString("  - platform: [OpenShift]\n")
		}
		if d.KubeRange != "" {
			sb.WriteString("  - platformVersion:\n      name: Kubernetes\n      range: \"" + d.KubeRange + "\"\n")
		}
		if d.OpenShiftRange != "" {
			sb.WriteString("  - platformVersion:\n      name: OpenShift\n      range: \"" + d.OpenShiftRange + "\"\n")
		}
		if d.Unique {
			sb.WriteString("  - uniqueInScope: {}\n")
		}
	}
	// a test template keeps the static-files validator from rendering templates with an empty context
	sb.WriteString("test:\n  template:\n  - name: t1\n    context:\n      config:\n        label: testlabel\n        flag: true\n      package:\n        metadata:\n          name: t\n          namespace: tns\n      environment:\n        kubernetes:\n          version: v1.27.0\n")
	return sb.String()
}

// Build renders the file map of the package.
func (d PkgDesc) Build(c PkgCtx) map[string][]byte {
	files := map[string][]byte{}
	if d.Broken != "no-manifest" {
		files["manifest.yaml"] = []byte(d.ManifestYAML())
	}
	if d.Broken == "two-manifests" {
		files["manifest.yml"] = []byte(d.ManifestYAML())
	}
	usesHelper := false
	for _, f := range d.Files {
		var docs []string
		for _, o := range f.Objs {
			if o.Tmpl == "helper" && f.Template {
				usesHelper = true
			}
			docs = append(docs, o.yaml(f.Template, c))
			if f.EmptyDocs {
				docs = append(docs, "# just a comment\n")
			}
		}
		path := f.Path
		if f.Template {
			path += ".gotmpl"
		}
		files[path] = []byte(strings.Join(docs, "---\n"))
	}
	if usesHelper {
		files[helperFile] = []byte(helperContent)
	}
	for i := 0; i < d.Components; i++ {
		name := ComponentName(i)
		files["components/"+name+"/manifest.yaml"] = []byte("apiVersion: manifests.package-operator.run/v1alpha1\nkind: PackageManifest\nmetadata:\n  name: " + name +
			"\nspec:\n  scopes:\n  - Namespaced\n  - Cluster\n  phases:\n  - name: cph\n")
		files["components/"+name+"/obj.yaml"] = []byte("apiVersion: v1\nkind: ConfigMap\nmetadata:\n  name: in-" + name +
			"\n  annotations:\n    package-operator.run/phase: cph\ndata:\n  component: " + name + "\n")
	}
	switch d.Broken {
	case "bad-yaml":
		files["zz-broken.yaml"] = []byte("apiVersion: v1\nkind: ConfigMap\nmetadata:\n  name: [unclosed\n")
	case "bad-template":
		files["zz-broken.yaml.gotmpl"] = []byte("apiVersion: v1\nkind: ConfigMap\nmetadata:\n  name: {{ .config.label \n")
	case "missing-key-template":
		files["zz-broken.yaml.gotmpl"] = []byte("apiVersion: v1\nkind: ConfigMap\nmetadata:\n  name: x{{ .config.nosuchkey }}\n  annotations:\n    package-operator.run/phase: " + d.Phases[0].Name + "\n")
	case "bad-phase":
		files["zz-broken.yaml"] = []byte("apiVersion: v1\nkind: ConfigMap\nmetadata:\n  name: zz\n  annotations:\n    package-operator.run/phase: nosuchphase\n")
	case "missing-phase-annotation":
		files["zz-broken.yaml"] = []byte("apiVersion: v1\nkind: ConfigMap\nmetadata:\n  name: zz\n")
	case "duplicate-object":
		if len(d.Files) > 0 && len(d.Files[0].Objs) > 0 {
			o := d.Files[0].Objs[0]
			o.Tmpl = ""
			files["zz-dup.yaml"] = []byte(o.yaml(false, c))
		}
	}
	return files
}

// ComponentName names the i-th sub-component of a multi-component package.
func ComponentName(i int) string { return "comp-" + string(rune('a'+i)) }

// pathLess is the "/"-aware path order the statement names (path-then-document order).
func pathLess(a, b string) bool {
	return strings.ReplaceAll(a, "/", "\x00") < strings.ReplaceAll(b, "/", "\x00")
}

func globMatch(glob, path string) bool {
	// supported generator globs: "dir/**", "*.yaml" style prefix*, exact
	switch {
	case strings.HasSuffix(glob, "/**"):
		return strings.HasPrefix(path, strings.TrimSuffix(glob, "**"))
	case strings.HasSuffix(glob, "*") && !strings.Contains(strings.TrimSuffix(glob, "*"), "*"):
		pre := strings.TrimSuffix(glob, "*")
		return strings.HasPrefix(path, pre) && !strings.Contains(strings.TrimPrefix(path, pre), "/")
	}
	return glob == path
}

// ExpectInvalid: the package contains an object whose phase annotation does not name a phase of the manifest exactly;
// object validation must reject the package (it must not be accepted and then silently lose the object).
func (d PkgDesc) ExpectInvalid() bool {
	for _, f := range d.Files {
		for _, o := range f.Objs {
			if o.PhaseForm != "" {
				return true
			}
		}
	}
	return false
}

// Expected is R-render: the ObjectSetTemplateSpec phases the package must render to, as JSON shape.
func (d PkgDesc) Expected(c PkgCtx) []any {
	c.ExtraDefault = ""
	if d.SchemaVariant > 0 {
		c.ExtraDefault = fmt.Sprintf("d%d", d.SchemaVariant)
	}
	conds := map[string]bool{}
	for _, cd := range d.Conds {
		conds[cd.Name] = c.evalExpr(cd.Expr, conds)
	}
	var excluded []string
	for _, cp := range d.CondPaths {
		if !c.evalExpr(cp.Expr, conds) {
			excluded = append(excluded, cp.Glob)
		}
	}
	files := append([]PkgFile{}, d.Files...)
	sort.SliceStable(files, func(i, j int) bool { return pathLess(files[i].Path, files[j].Path) })
	byPhase := map[string][]any{}
	for _, f := range files {
		skip := false
		for _, g := range excluded {
			if globMatch(g, f.Path) {
				skip = true
			}
		}
		if skip {
			continue
		}
		for _, o := range f.Objs {
			if o.Cond != "" && !c.evalExpr(o.Cond, conds) {
				continue
			}
			byPhase[o.Phase] = append(byPhase[o.Phase], o.expectedObject(f.Template, c, d.Name))
		}
	}
	var out []any
	for _, p := range d.Phases {
		if len(byPhase[p.Name]) == 0 {
			continue
		}
		ph := map[string]any{"name": p.Name, "objects": byPhase[p.Name]}
		if p.Class != "" {
			ph["class"] = p.Class
		}
		out = append(out, ph)
	}
	return out
}

// GenPkg draws a valid package description.
func GenPkg(t *rapid.T, maxFiles int) PkgDesc {
	d := PkgDesc{Name: rapid.SampledFrom([]string{"pkg-a", "pkg-b"}).Draw(t, "pkgname"), Scopes: []string{"Namespaced", "Cluster"}}
	nph := rapid.IntRange(1, 4).Draw(t, "nphases")
	for i := 0; i < nph; i++ {
		p := PkgPhase{Name: fmt.Sprintf("ph%d", i)}
		if rapid.IntRange(0, 5).Draw(t, "class") == 0 {
			p.Class = "default"
		}
		d.Phases = append(d.Phases, p)
	}
	// shuffle phase order relative to names so manifest order != name order
	if nph > 1 && rapid.Bool().Draw(t, "revphases") {
		for i, j := 0, len(d.Phases)-1; i < j; i, j = i+1, j-1 {
			d.Phases[i], d.Phases[j] = d.Phases[j], d.Phases[i]
		}
	}
	nc := rapid.IntRange(0, 2).Draw(t, "nconds")
	for i := 0; i < nc; i++ {
		d.Conds = append(d.Conds, PkgCond{Name: fmt.Sprintf("c%d", i),
			Expr: rapid.SampledFrom([]string{"true", "false", "config.flag == true", "config.flag != true", "has(environment.openShift)"}).Draw(t, "cexpr")})
	}
	condRef := func() string {
		opts := []string{"true", "false"}
		for _, c := range d.Conds {
			opts = append(opts, "cond."+c.Name)
		}
		return rapid.SampledFrom(opts).Draw(t, "condref")
	}
	dirs := []string{"", "a/", "a/b/", "b/", "a-b/", "a.b/"}
	bases := []string{"x", "y", "z", "x-1", "x.1"}
	if rapid.IntRange(0, 3).Draw(t, "multicomponent") == 0 {
		d.Components = rapid.IntRange(1, 2).Draw(t, "ncomponents")
		// root files living next to the components folder under similar names
		dirs = append(dirs, "components-x/", "componentsx/", "")
		bases = append(bases, "components", "components-rbac")
	}
	nf := rapid.IntRange(1, maxFiles).Draw(t, "nfiles")
	names := map[string]bool{}
	paths := map[string]bool{}
	objSeq := 0
	for i := 0; i < nf; i++ {
		f := PkgFile{Template: rapid.IntRange(0, 2).Draw(t, "tmpl") > 0, EmptyDocs: rapid.IntRange(0, 4).Draw(t, "emptydocs") == 0}
		f.Path = rapid.SampledFrom(dirs).Draw(t, "dir") + rapid.SampledFrom(bases).Draw(t, "base") + rapid.SampledFrom([]string{".yaml", ".yml"}).Draw(t, "ext")
		if paths[f.Path] || paths[strings.TrimSuffix(strings.TrimSuffix(f.Path, ".yaml"), ".yml")] {
			continue
		}
		paths[f.Path] = true
		paths[strings.TrimSuffix(strings.TrimSuffix(f.Path, ".yaml"), ".yml")] = true
		no := rapid.IntRange(0, 3).Draw(t, "nobjs")
		for j := 0; j < no; j++ {
			o := PkgObj{Kind: rapid.SampledFrom([]string{"ConfigMap", "ConfigMap", "Widget"}).Draw(t, "okind"), Variant: rapid.IntRange(0, 3).Draw(t, "variant")}
			o.Name = fmt.Sprintf("o%d", objSeq)
			objSeq++
			if names[o.Kind+o.Name] {
				continue
			}
			names[o.Kind+o.Name] = true
			o.Phase = d.Phases[rapid.IntRange(0, len(d.Phases)-1).Draw(t, "ophase")].Name
			if rapid.IntRange(0, 2).Draw(t, "hascond") == 0 {
				o.Cond = condRef()
			}
			o.CP = rapid.SampledFrom([]string{"", "", "IfNoController", "None", "Prevent"}).Draw(t, "ocp")
			o.CondMap = o.Kind == "Widget" && rapid.IntRange(0, 3).Draw(t, "condmap") == 0
			o.CondMap2 = o.CondMap && rapid.Bool().Draw(t, "condmap2")
			o.Keep = rapid.IntRange(0, 3).Draw(t, "keep") == 0
			if f.Template {
				o.Tmpl = rapid.SampledFrom([]string{"", "config", "helper", "quote", "b64", "default", "toJson", "upper"}).Draw(t, "otmpl")
			}
			f.Objs = append(f.Objs, o)
		}
		d.Files = append(d.Files, f)
	}
	ncp := rapid.IntRange(0, 2).Draw(t, "ncondpaths")
	for i := 0; i < ncp; i++ {
		d.CondPaths = append(d.CondPaths, PkgCondPath{Glob: rapid.SampledFrom([]string{"a/**", "b/**", "x*", "a/b/**", "y.yaml"}).Draw(t, "glob"), Expr: condRef()})
	}
	d.Probes = rapid.Bool().Draw(t, "probes")
	return d
}

// GenPkgCtx draws a render context.
func GenPkgCtx(t *rapid.T) PkgCtx {
	return PkgCtx{
		Label:       rapid.SampledFrom([]string{"alpha", "beta-1", "G", "x y"}).Draw(t, "label"),
		HasLabel:    true,
		Flag:        rapid.Bool().Draw(t, "flag"),
		OpenShift:   rapid.IntRange(0, 2).Draw(t, "openshift") == 0,
		KubeVersion: rapid.SampledFrom([]string{"v1.27.0", "v1.30.1", "v1.20.0"}).Draw(t, "kubever"),
		PkgName:     "inst",
		PkgNS:       "ns-a",
	}
}
