package checks

import (
	"strconv"

	"pgregory.net/rapid"

	"package-operator.run/verifharness/engine"
	"package-operator.run/verifharness/refmodel"
)

// CannedProbes are probe entries over the pool kinds whose outcome workload/third-party actions can flip.
func CannedProbes() []refmodel.RObjectSetProbe {
	w := refmodel.RSelector{Group: engine.WidgetGroup, Kind: "Widget"}
	cm := refmodel.RSelector{Group: "", Kind: "ConfigMap"}
	cmSel := refmodel.RSelector{Group: "", Kind: "ConfigMap", HasLabelSelector: true, MatchLabels: map[string]string{"app": "pool"}}
	return []refmodel.RObjectSetProbe{
		{Sel: w, Probes: []refmodel.RProbe{{Kind: "condition", CondType: "Available", CondStatus: "True"}}},
		{Sel: w, Probes: []refmodel.RProbe{{Kind: "fieldsEqual", FieldA: ".spec.size", FieldB: ".status.ready"}}},
		{Sel: w, Probes: []refmodel.RProbe{{Kind: "cel", CEL: &refmodel.Expr{Op: "eq", Path: []string{"status", "phase"}, Lit: "Ready"}, CELMessage: "phase must be Ready"}}},
		{Sel: cmSel, Probes: []refmodel.RProbe{{Kind: "cel", CEL: &refmodel.Expr{Op: "has", Path: []string{"data", "ready"}}, CELMessage: "needs data.ready"}}},
		{Sel: cm, Probes: []refmodel.RProbe{{Kind: "fieldsEqual", FieldA: ".data.v", FieldB: ".data.v"}}},
		{Sel: w, Probes: []refmodel.RProbe{
			{Kind: "condition", CondType: "Available", CondStatus: "True"},
			{Kind: "cel", CEL: &refmodel.Expr{Op: "gt", Path: []string{"status", "ready"}, Lit: int64(-1)}, CELMessage: "ready must be reported"},
		}},
		// CEL rules whose (required, but possibly empty) message is empty: a failing probe that has nothing to say still fails
		{Sel: cmSel, Probes: []refmodel.RProbe{{Kind: "cel", CEL: &refmodel.Expr{Op: "has", Path: []string{"data", "ready"}}, CELMessage: ""}}},
		{Sel: w, Probes: []refmodel.RProbe{{Kind: "cel", CEL: &refmodel.Expr{Op: "eq", Path: []string{"status", "phase"}, Lit: "Ready"}, CELMessage: ""}}},
	}
}

// GenProbes draws 0..2 canned probe entries.
func GenProbes(t *rapid.T) []refmodel.RObjectSetProbe {
	canned := CannedProbes()
	n := rapid.IntRange(0, 2).Draw(t, "nprobes")
	var out []refmodel.RObjectSetProbe
	for i := 0; i < n; i++ {
		out = append(out, canned[rapid.IntRange(0, len(canned)-1).Draw(t, "probe")])
	}
	return out
}

// SetGenOpts tunes GenSet.
type SetGenOpts struct {
	MaxPhases    int
	MaxObjs      int
	AllowClass   bool     // phases may be delegated (class default)
	Classes      []string // classes to draw from when delegated
	AllowSliced  bool
	AllowCluster bool
	PoolSize     int
	CPs          []string
	ChainBias    bool     // later sets usually declare all earlier ones as previous
	Specials     []string // violating-object classes to mix in (C11)
	SpecialRate  int      // one in SpecialRate objects is special (default 4)
	// Exclusive: pool indexes already used are avoided (no duplicates inside one set is always enforced).
}

// GenSet draws an ObjectSet description without duplicate objects.
func GenSet(t *rapid.T, o SetGenOpts) SetSpec {
	if o.MaxPhases == 0 {
		o.MaxPhases = 4
	}
	if o.MaxObjs == 0 {
		o.MaxObjs = 3
	}
	if o.PoolSize == 0 {
		o.PoolSize = engine.NativePoolSize
	}
	if len(o.Classes) == 0 {
		o.Classes = []string{engine.ClassDefault}
	}
	nph := rapid.IntRange(1, o.MaxPhases).Draw(t, "nphases")
	used := map[int]bool{}
	var s SetSpec
	for p := 0; p < nph; p++ {
		ph := PhaseSpec{Name: "p" + strconv.Itoa(p)}
		if o.AllowClass && rapid.IntRange(0, 2).Draw(t, "delegated") == 0 {
			ph.Class = rapid.SampledFrom(o.Classes).Draw(t, "class")
		}
		if o.AllowSliced && rapid.IntRange(0, 2).Draw(t, "sliced") == 0 {
			ph.Sliced = true
		}
		nobj := rapid.IntRange(0, o.MaxObjs).Draw(t, "nobjs")
		for i := 0; i < nobj; i++ {
			idx := rapid.IntRange(0, o.PoolSize-1).Draw(t, "pool")
			if ph.Class == engine.ClassRemote {
				idx = engine.NativePoolSize + idx%engine.RemotePoolSize
			}
			special := ""
			if len(o.Specials) > 0 {
				rate := o.SpecialRate
				if rate == 0 {
					rate = 4
				}
				if rapid.IntRange(0, rate-1).Draw(t, "isspecial") == 0 {
					special = rapid.SampledFrom(o.Specials).Draw(t, "special")
				}
			}
			isDup := special == "dup" || special == "dupver"
			if used[idx] && !isDup {
				continue
			}
			if isDup && !used[idx] {
				special = ""
			}
			used[idx] = true
			os := ObjSpec{Pool: idx, Variant: rapid.IntRange(0, 2).Draw(t, "variant"), Special: special}
			if len(o.CPs) > 0 {
				os.CP = rapid.SampledFrom(o.CPs).Draw(t, "cp")
			}
			ph.Objs = append(ph.Objs, os)
		}
		s.Phases = append(s.Phases, ph)
	}
	s.Probes = GenProbes(t)
	return s
}

// GenReconcile draws a reconcile step over the given controllers.
func GenReconcile(t *rapid.T, ctrls []string) Step {
	return Step{Op: "reconcile", Ctrl: rapid.SampledFrom(ctrls).Draw(t, "ctrl"), I: rapid.IntRange(0, 5).Draw(t, "i")}
}

// SetControllers are the controllers that act on ObjectSets and their phases.
var SetControllers = []string{engine.CtrlObjectSet, engine.CtrlObjectSet, engine.CtrlObjectSetPhase, engine.CtrlClusterObjectSet, engine.CtrlClusterObjectSetPhase, engine.CtrlRemotePhase}

// NamespacedSetControllers excludes the cluster flavours.
var NamespacedSetControllers = []string{engine.CtrlObjectSet, engine.CtrlObjectSet, engine.CtrlObjectSetPhase}
