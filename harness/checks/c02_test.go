package checks

import (
	"testing"

	"pgregory.net/rapid"

	"package-operator.run/verifharness/engine"
)

func lifecycleSteps(t *rapid.T, sc *Scenario) {
	switch rapid.IntRange(0, 5).Draw(t, "lc") {
	case 0:
		sc.Steps = append(sc.Steps, Step{Op: "pauseSet", I: rapid.IntRange(0, 2).Draw(t, "set")})
	case 1:
		sc.Steps = append(sc.Steps, Step{Op: "unpauseSet", I: rapid.IntRange(0, 2).Draw(t, "set")})
	case 2:
		sc.Steps = append(sc.Steps, Step{Op: "archiveSet", I: rapid.IntRange(0, 2).Draw(t, "set")})
	case 3:
		sc.Steps = append(sc.Steps, Step{Op: "deleteSet", I: rapid.IntRange(0, 2).Draw(t, "set"), On: rapid.IntRange(0, 3).Draw(t, "orphan") == 0})
	case 4:
		sc.Steps = append(sc.Steps, Step{Op: "gc"})
	default:
		sc.Steps = append(sc.Steps, Step{Op: "quiesce"})
	}
}

func TestC02(t *testing.T) {
	st := NewStats("C02", "engine", "scenario = chains of 1-3 hand-made revisions sharing/adding/dropping pool objects (local + delegated phases, both owner strategies), arbitrary interleaving of their reconciles with pause/archive/delete mid-handover and third-party re-owning; non-trivial = at least one adoption write happened and a lower revision was reconciled afterwards")
	opts := SetGenOpts{AllowClass: true, Classes: []string{engine.ClassDefault, engine.ClassDefault, engine.ClassRemote}, CPs: []string{"", "", "Prevent", "IfNoController", "None"}, PoolSize: 3, MaxObjs: 3, MaxPhases: 2, ChainBias: true}
	mk := func(sc *Scenario) (*Runner, *C02Monitor) {
		m := &C02Monitor{}
		return NewRunner(sc, m), m
	}
	CheckOrReplay(t, st, func(data []byte) (any, error) {
		return ReplayScenario(data, func(sc *Scenario) *Runner { r, _ := mk(sc); return r })
	}, func(rt *rapid.T) {
		sc := genChainWorldTP(rt, "C02", opts, lifecycleSteps, false)
		r, m := mk(sc)
		err := r.Run()
		st.Count("passes", int64(len(r.W.Passes)))
		st.Count("adoption_writes", int64(m.Adoptions))
		st.Case(sc, r.Labels["c02-older-revision-reconciled-after-adoption"], r.LabelList()...)
		st.Report(rt, sc, err)
	})
}
