package checks

import (
	"testing"

	"pgregory.net/rapid"

	"package-operator.run/verifharness/engine"
)

func lifecycleSteps(t *rapid.T, sc *Scenario) {
	switch rapid.IntRange(0, 5).Draw(t, "lc") {
	case 0:
		sc.Steps = append(sc.Steps, Step{Op: "pauseSet", I: rapid.IntRange(0, 2).Draw(t, "set")})
	case 1:
		sc.Steps = append(sc.Steps, Step{Op: "unpauseSet", I: rapid.IntRange(0, 2).Draw(t, "set")})
	case 2:
		sc.Steps = append(sc.Steps, Step{Op: "archiveSet", I: rapid.IntRange(0, 2).Draw(t, "set")})
	case 3:
		sc.Steps = append(sc.Steps, Step{Op: "deleteSet", I: rapid.IntRange(0, 2).Draw(t, "set"), On: rapid.IntRange(0, 3).Draw(t, "orphan") == 0})
	case 4:
		sc.Steps = append(sc.Steps, Step{Op: "gc"})
	default:
		sc.Steps = append(sc.Steps, Step{Op: "quiesce"})
	}
}

// genC02Race: a directed family around "teardown of an old revision races with the adoption by a newer one": three
// revisions sharing one object, local or delegated, the first two settled; then the oldest (or the middle one) is archived or
// deleted and passes of the different controllers are nested into each other right before PKO's writes on the shared object.
func genC02Race(t *rapid.T) *Scenario {
	sc := &Scenario{Prop: "C02"}
	for i := 0; i < 3; i++ {
		set := SetSpec{Phases: []PhaseSpec{{Name: "p0", Class: rapid.SampledFrom([]string{"", engine.ClassDefault}).Draw(t, "class"),
			Objs: []ObjSpec{{Pool: 0, Variant: i, CP: rapid.SampledFrom([]string{"", "", "IfNoController"}).Draw(t, "cp"),
				Special: rapid.SampledFrom([]string{"", "", "", "revanno"}).Draw(t, "special")}}}}}
		if rapid.IntRange(0, 2).Draw(t, "second") == 0 {
			set.Phases[0].Objs = append(set.Phases[0].Objs, ObjSpec{Pool: 1, Variant: i})
		}
		for j := 0; j < i; j++ {
			set.Previous = append(set.Previous, j)
		}
		sc.Steps = append(sc.Steps, Step{Op: "createSet", Set: &set})
		// the newest revision is either still taking over when the teardown starts, or settled as well: then the teardown
		// of a co-owner (which also strips the cache label) is followed by passes of an older, still active revision that
		// no longer finds the object in its cache
		if i < 2 || rapid.IntRange(0, 2).Draw(t, "settleNewest") == 0 {
			sc.Steps = append(sc.Steps, Step{Op: "quiesce"})
		}
	}
	ctrls := []string{engine.CtrlObjectSet, engine.CtrlObjectSetPhase}
	for i := rapid.IntRange(0, 2).Draw(t, "warmup"); i > 0; i-- {
		sc.Steps = append(sc.Steps, GenReconcile(t, ctrls))
	}
	victim := rapid.IntRange(0, 1).Draw(t, "victim")
	if rapid.Bool().Draw(t, "archive") {
		sc.Steps = append(sc.Steps, Step{Op: "archiveSet", I: victim})
	} else {
		sc.Steps = append(sc.Steps, Step{Op: "deleteSet", I: victim})
	}
	for i := rapid.IntRange(2, 8).Draw(t, "nrace"); i > 0; i-- {
		if rapid.IntRange(0, 3).Draw(t, "inject") > 0 {
			sc.Steps = append(sc.Steps, Step{Op: "inject", I: rapid.IntRange(0, 1).Draw(t, "nwrite"), J: InjectOtherControllerPass, K: rapid.IntRange(0, 3).Draw(t, "pick")})
		}
		sc.Steps = append(sc.Steps, GenReconcile(t, ctrls))
	}
	sc.Steps = append(sc.Steps, Step{Op: "quiesce"})
	return sc
}

func TestC02(t *testing.T) {
	st := NewStats("C02", "engine", "scenario = chains of 1-3 hand-made revisions sharing/adding/dropping pool objects (local + delegated phases, both owner strategies), arbitrary interleaving of their reconciles with pause/archive/delete mid-handover and third-party re-owning; non-trivial = at least one adoption write happened and a lower revision was reconciled afterwards")
	opts := SetGenOpts{AllowClass: true, Classes: []string{engine.ClassDefault, engine.ClassDefault, engine.ClassRemote}, CPs: []string{"", "", "Prevent", "IfNoController", "None"}, PoolSize: 3, MaxObjs: 3, MaxPhases: 2, ChainBias: true,
		Specials: []string{"revanno"}, SpecialRate: 6}
	mk := func(sc *Scenario) (*Runner, *C02Monitor) {
		m := &C02Monitor{}
		return NewRunner(sc, m), m
	}
	CheckOrReplay(t, st, func(data []byte) (any, error) {
		return ReplayScenario(data, func(sc *Scenario) *Runner { r, _ := mk(sc); return r })
	}, func(rt *rapid.T) {
		if rapid.IntRange(0, 2).Draw(rt, "family") == 0 {
			sc := genC02Race(rt)
			r, m := mk(sc)
			err := r.Run()
			st.Count("passes", int64(len(r.W.Passes)))
			st.Count("adoption_writes", int64(m.Adoptions))
			st.Case(sc, r.Labels["c02-older-revision-reconciled-after-adoption"], append(r.LabelList(), "family-teardown-adoption-race")...)
			st.Report(rt, sc, err)
			return
		}
		sc := genChainWorldTP(rt, "C02", opts, func(t *rapid.T, sc *Scenario) {
			if rapid.IntRange(0, 2).Draw(t, "race") == 0 {
				// a pass of another controller (ObjectSet vs. ObjectSetPhase vs. remote phase controller) for another revision
				// listing the same object lands between this pass's read of the object and its write
				sc.Steps = append(sc.Steps, Step{Op: "inject", I: rapid.IntRange(0, 2).Draw(t, "nwrite"), J: InjectOtherControllerPass, K: rapid.IntRange(0, 3).Draw(t, "pick")},
					GenReconcile(t, []string{engine.CtrlObjectSet, engine.CtrlObjectSetPhase, engine.CtrlRemotePhase}))
				return
			}
			lifecycleSteps(t, sc)
		}, false)
		r, m := mk(sc)
		err := r.Run()
		st.Count("passes", int64(len(r.W.Passes)))
		st.Count("adoption_writes", int64(m.Adoptions))
		st.Case(sc, r.Labels["c02-older-revision-reconciled-after-adoption"], r.LabelList()...)
		st.Report(rt, sc, err)
	})
}
