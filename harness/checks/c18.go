package checks

import (
	"context"
	"fmt"
	"sort"
	"strings"

	"k8s.io/apimachinery/pkg/apis/meta/v1/unstructured"
	"k8s.io/client-go/util/workqueue"
	"sigs.k8s.io/controller-runtime/pkg/client"
	"sigs.k8s.io/controller-runtime/pkg/event"
	"sigs.k8s.io/controller-runtime/pkg/reconcile"

	corev1alpha1 "package-operator.run/apis/core/v1alpha1"
	"package-operator.run/internal/constants"
	"package-operator.run/internal/dynamiccache"

	"package-operator.run/verifharness/engine"
	"package-operator.run/verifharness/kubesim"
)

// OTSource is one source of a generated ObjectTemplate.
type OTSource struct {
	Kind     string `json:"kind"`         // ConfigMap | Secret | Namespace (cluster-scoped)
	NS       string `json:"ns,omitempty"` // "" (defaulted) | ns-a | ns-b
	Name     string `json:"name"`
	Optional bool   `json:"optional,omitempty"`
	// Items copy .data.<Key> (or .metadata.name for Namespace) to .<Dest>
	Keys []string `json:"keys"`
}

// OTField is one data field of the templated ConfigMap.
type OTField struct {
	DataKey string `json:"dataKey"`
	Expr    string `json:"expr"` // raw:<k> | quote:<k> | guard:<k> | b64:<k> | upper:<k> | lit:<text> | env
}

// OTSpec describes an ObjectTemplate.
type OTSpec struct {
	Cluster    bool       `json:"cluster,omitempty"`
	Sources    []OTSource `json:"sources"`
	Fields     []OTField  `json:"fields"`
	TargetKind string     `json:"targetKind,omitempty"` // "" = ConfigMap | ClusterWidget
	TargetNS   string     `json:"targetNS,omitempty"`   // explicit namespace in the template ("" | ns-a | ns-b)
	Broken     string     `json:"broken,omitempty"`     // "" | parse | exec
}

// otHostedClusterExpr renders the name of the hosted cluster the template's namespace belongs to ("none" if it belongs to
// none, "nohs" outside HyperShift).
// (templates run with missingkey=error: absent parts of the environment have to be asked for with hasKey)
const otHostedClusterExpr = `{{ if hasKey .environment "hyperShift" }}{{ with (get .environment.hyperShift "hostedCluster") }}{{ .metadata.name }}{{ else }}none{{ end }}{{ else }}nohs{{ end }}`

// hostedClusterOf is the reference for otHostedClusterExpr: HyperShift keeps the control plane of HostedCluster <ns>/<name> in
// the namespace <ns>-<name>.
func hostedClusterOf(store *kubesim.Store, hyperShift bool, tmplNS string) string {
	if !hyperShift {
		return "nohs"
	}
	if tmplNS == "" {
		return "none"
	}
	for _, k := range store.Keys() {
		if k.Kind == "HostedCluster" && k.Namespace+"-"+strings.ReplaceAll(k.Name, ".", "-") == tmplNS {
			return k.Name
		}
	}
	return "none"
}

const otName = "ot"
const otTarget = "ot-target"

func (s OTSpec) templateText() string {
	if s.Broken == "parse" {
		return "apiVersion: v1\nkind: ConfigMap\nmetadata:\n  name: {{ .config.k0 \n"
	}
	var sb strings.Builder
	if s.TargetKind == "ClusterWidget" {
		sb.WriteString("apiVersion: verif.example/v1\nkind: ClusterWidget\nmetadata:\n  name: " + otTarget + "\n")
	} else {
		sb.WriteString("apiVersion: v1\nkind: ConfigMap\nmetadata:\n  name: " + otTarget + "\n")
	}
	if s.TargetNS != "" {
		sb.WriteString("  namespace: " + s.TargetNS + "\n")
	} else if s.Cluster && s.TargetKind != "ClusterWidget" {
		sb.WriteString("  namespace: " + engine.NSMain + "\n")
	}
	field := "data"
	if s.TargetKind == "ClusterWidget" {
		field = "spec"
	}
	sb.WriteString(field + ":\n")
	if s.Broken == "exec" {
		sb.WriteString("  broken: {{ .config.nosuch.deeper }}\n")
	}
	for _, f := range s.Fields {
		k := strings.SplitN(f.Expr, ":", 2)
		arg := ""
		if len(k) > 1 {
			arg = k[1]
		}
		switch k[0] {
		case "raw":
			sb.WriteString(fmt.Sprintf("  %s: \"{{ .config.%s }}\"\n", f.DataKey, arg))
		case "quote":
			sb.WriteString(fmt.Sprintf("  %s: {{ .config.%s | quote }}\n", f.DataKey, arg))
		case "guard":
			sb.WriteString(fmt.Sprintf("  %s: \"{{ if hasKey .config \"%s\" }}{{ .config.%s }}{{ else }}dflt{{ end }}\"\n", f.DataKey, arg, arg))
		case "b64":
			sb.WriteString(fmt.Sprintf("  %s: {{ .config.%s | b64enc | quote }}\n", f.DataKey, arg))
		case "upper":
			sb.WriteString(fmt.Sprintf("  %s: {{ .config.%s | upper | quote }}\n", f.DataKey, arg))
		case "opt":
			// the whole line exists only while the source provides a non-empty value
			sb.WriteString(fmt.Sprintf("{{ if (get .config \"%s\") }}  %s: {{ get .config \"%s\" | quote }}\n{{ end }}", arg, f.DataKey, arg))
		case "lit":
			sb.WriteString(fmt.Sprintf("  %s: \"%s\"\n", f.DataKey, arg))
		case "env":
			sb.WriteString(fmt.Sprintf("  %s: {{ .environment.kubernetes.version | quote }}\n", f.DataKey))
		case "hc":
			sb.WriteString(fmt.Sprintf("  %s: \"%s\"\n", f.DataKey, otHostedClusterExpr))
		}
	}
	if len(s.Fields) == 0 && s.Broken != "exec" {
		sb.WriteString("  fixed: \"yes\"\n")
	}
	return sb.String()
}

func srcGVK(kind string) (string, string) {
	return "v1", kind
}

func (s OTSpec) apiSources() []corev1alpha1.ObjectTemplateSource {
	var out []corev1alpha1.ObjectTemplateSource
	for _, src := range s.Sources {
		av, kind := srcGVK(src.Kind)
		a := corev1alpha1.ObjectTemplateSource{APIVersion: av, Kind: kind, Namespace: src.NS, Name: src.Name, Optional: src.Optional}
		for _, k := range src.Keys {
			key := ".data." + k
			if src.Kind == "Namespace" {
				key = ".metadata.name"
			}
			a.Items = append(a.Items, corev1alpha1.ObjectTemplateSourceItem{Key: key, Destination: "." + k})
		}
		out = append(out, a)
	}
	return out
}

func srcKey(src OTSource, tmplNS string) kubesim.Key {
	ns := src.NS
	if ns == "" {
		ns = tmplNS
	}
	if src.Kind == "Namespace" {
		ns = ""
	}
	return kubesim.Key{Group: "", Kind: src.Kind, Namespace: ns, Name: src.Name}
}

// otExpectation is the reference outcome for a template given the current store content.
type otExpectation struct {
	Class   string            // "" ok | source-outside-namespace | missing-required-source | template-error | target-outside-namespace | key-missing-in-source
	Data    map[string]string // expected data/spec fields when Class == ""
	Retry   bool              // an optional source is missing: retried later
	Sources []kubesim.Key     // sources that exist and are used
}

func otExpect(store *kubesim.Store, s OTSpec, tmplNS string, kubeVersion string, hyperShift bool) otExpectation {
	exp := otExpectation{Data: map[string]string{}}
	config := map[string]string{}
	for _, src := range s.Sources {
		if tmplNS != "" {
			if src.Kind == "Namespace" {
				exp.Class = "source-outside-namespace"
				return exp
			}
			if src.NS != "" && src.NS != tmplNS {
				exp.Class = "source-outside-namespace"
				return exp
			}
		} else if src.Kind != "Namespace" && src.NS == "" {
			exp.Class = "source-outside-namespace" // no namespace and no default for a cluster-scoped template
			return exp
		}
		k := srcKey(src, tmplNS)
		o := store.PeekNoCopy(k)
		if o == nil {
			if src.Optional {
				exp.Retry = true
				continue
			}
			exp.Class = "missing-required-source"
			return exp
		}
		exp.Sources = append(exp.Sources, k)
		for _, key := range src.Keys {
			if src.Kind == "Namespace" {
				config[key] = kubesim.MetaString(o, "name")
				continue
			}
			v, ok := asMap(o["data"])[key]
			if !ok {
				exp.Class = "key-missing-in-source"
				return exp
			}
			config[key] = asStr(v)
		}
	}
	if s.Broken != "" {
		exp.Class = "template-error"
		return exp
	}
	for _, f := range s.Fields {
		k := strings.SplitN(f.Expr, ":", 2)
		arg := ""
		if len(k) > 1 {
			arg = k[1]
		}
		v, has := config[arg]
		switch k[0] {
		case "raw", "quote", "b64", "upper":
			if !has {
				exp.Class = "template-error"
				return exp
			}
			switch k[0] {
			case "b64":
				v = b64(v)
			case "upper":
				v = strings.ToUpper(v)
			}
			exp.Data[f.DataKey] = v
		case "guard":
			if !has {
				v = "dflt"
			}
			exp.Data[f.DataKey] = v
		case "opt":
			if has && v != "" {
				exp.Data[f.DataKey] = v
			}
		case "lit":
			exp.Data[f.DataKey] = arg
		case "env":
			exp.Data[f.DataKey] = kubeVersion
		case "hc":
			exp.Data[f.DataKey] = hostedClusterOf(store, hyperShift, tmplNS)
		}
	}
	if len(s.Fields) == 0 {
		exp.Data["fixed"] = "yes"
	}
	if tmplNS != "" {
		if s.TargetKind == "ClusterWidget" {
			exp.Class = "target-outside-namespace"
		}
		if s.TargetNS != "" && s.TargetNS != tmplNS {
			exp.Class = "target-outside-namespace"
		}
	}
	return exp
}

// C18Monitor: ObjectTemplates track their sources and stay within bounds.
type C18Monitor struct {
	Spec    map[string]OTSpec // template uid -> current spec (updated by the ops)
	Classes map[string]int
}

type nullQueue struct {
	workqueue.TypedRateLimitingInterface[reconcile.Request]
	items []reconcile.Request
}

func (q *nullQueue) Add(r reconcile.Request) { q.items = append(q.items, r) }

func (m *C18Monitor) AfterPass(r *Runner, pv *PassView) error {
	if pv.P.Controller != engine.CtrlObjectTemplate && pv.P.Controller != engine.CtrlClusterObjectTemplate {
		return nil
	}
	if pv.Owner == nil || pv.P.Crashed {
		return nil
	}
	if m.Classes == nil {
		m.Classes = map[string]int{}
	}
	uid := engine.UID(pv.Owner)
	name := kubesim.MetaString(pv.Owner, "name")
	tmplNS := kubesim.MetaString(pv.Owner, "namespace")
	spec, ok := m.Spec[uid]
	if !ok {
		return nil
	}
	// namespace confinement of every write (C11 clause for ObjectTemplates)
	if tmplNS != "" {
		for _, c := range pv.Calls {
			if c.Actor != "pko" || !c.IsWrite() || c.DryRun {
				continue
			}
			ki := r.W.Store.Kind(engineGK(c.Key))
			if ki != nil && (!ki.Namespaced || c.Key.Namespace != tmplNS) {
				return Violf("C18", "template-write-outside-namespace", "pass %d: namespaced ObjectTemplate %s/%s issued %s on %s", pv.P.ID, tmplNS, name, c.Verb, c.Key)
			}
		}
	}
	if OwnerDeleting(pv.Owner) {
		r.Labels["c18-deletion-pass"] = true
		if pv.P.Err == "" {
			if n := r.W.Cache.OwnerCount(uid); n != 0 {
				return Violf("C18", "watches-not-released", "pass %d: ObjectTemplate %s was deleted but still holds %d watch registrations", pv.P.ID, name, n)
			}
			if now := r.W.Store.PeekNoCopy(pv.OwnerKey); now != nil && hasFinalizer(now, constants.CachedFinalizer) {
				return Violf("C18", "finalizer-not-removed", "pass %d: deleted ObjectTemplate %s still carries the cache finalizer", pv.P.ID, name)
			}
		}
		return nil
	}
	// expectation on the store content as of the start of the pass == now for sources (only PKO label patches happened)
	env := PkgEnvs[mod(r.EnvIdx, len(PkgEnvs))]
	exp := otExpect(r.W.Store, spec, tmplNS, env.KubeVersion, r.HyperShift)
	m.Classes[exp.Class]++
	targetKind, targetGroup := "ConfigMap", ""
	if spec.TargetKind == "ClusterWidget" {
		targetKind, targetGroup = "ClusterWidget", engine.WidgetGroup
	}
	var targetWrites []*kubesim.Call
	for _, c := range pv.Calls {
		if c.Actor == "pko" && c.IsWrite() && !c.DryRun && c.Key.Kind == targetKind && c.Key.Group == targetGroup && c.Key.Name == otTarget {
			targetWrites = append(targetWrites, c)
		}
	}
	var conds map[string]engine.Cond
	for _, sw := range pv.StatusWrites {
		conds = engine.Conditions(asMap(sw.Body))
	}
	if exp.Retry && (exp.Class == "template-error" || exp.Class == "target-outside-namespace") {
		// the template cannot be rendered (yet) while an optional source is missing: the source may appear later without any
		// event reaching the controller (it is not labelled for the cache before it is used), so the retry must still be scheduled
		r.Labels["c18-optional-source-missing-and-unrenderable"] = true
		if pv.P.Err == "" && pv.P.Result.RequeueAfter <= 0 {
			return Violf("C18", "optional-source-not-retried", "pass %d: an optional source of %s is missing and the template is %s, but no retry was scheduled", pv.P.ID, name, exp.Class)
		}
	}
	if exp.Class != "" {
		r.Labels["c18-invalid-class"] = true
		for _, c := range targetWrites {
			if c.Err == "" {
				return Violf("C18", "target-written-despite:"+exp.Class, "pass %d: ObjectTemplate %s is %s but PKO issued %s on %s", pv.P.ID, name, exp.Class, c.Verb, c.Key)
			}
		}
		if pv.P.Err == "" && (conds == nil || conds["package-operator.run/Invalid"].Status != "True") {
			return Violf("C18", "invalid-not-reported:"+exp.Class, "pass %d: ObjectTemplate %s is %s but the persisted Invalid condition is %q", pv.P.ID, name, exp.Class, conds["package-operator.run/Invalid"].Status)
		}
		return nil
	}
	if exp.Retry {
		r.Labels["c18-optional-source-missing"] = true
		if pv.P.Err == "" && pv.P.Result.RequeueAfter <= 0 {
			return Violf("C18", "optional-source-not-retried", "pass %d: an optional source of %s is missing but no retry was scheduled", pv.P.ID, name)
		}
	}
	if pv.P.Err != "" {
		return nil
	}
	// the target must equal the reference render of the current sources
	tns := tmplNS
	if tns == "" {
		tns = spec.TargetNS
		if tns == "" {
			tns = engine.NSMain
		}
	}
	tk := kubesim.Key{Group: targetGroup, Kind: targetKind, Namespace: tns, Name: otTarget}
	if targetKind == "ClusterWidget" {
		tk.Namespace = ""
	}
	target := r.W.Store.PeekNoCopy(tk)
	if target == nil {
		return Violf("C18", "target-missing", "pass %d: ObjectTemplate %s rendered without error but %s does not exist", pv.P.ID, name, tk)
	}
	field := "data"
	if targetKind == "ClusterWidget" {
		field = "spec"
	}
	got := map[string]string{}
	for k, v := range asMap(target[field]) {
		got[k] = fmt.Sprint(v)
	}
	if fmt.Sprint(sortedKV(got)) != fmt.Sprint(sortedKV(exp.Data)) {
		return Violf("C18", "target-differs-from-reference-render", "pass %d: %s has %v, the template rendered with the current sources gives %v", pv.P.ID, tk, sortedKV(got), sortedKV(exp.Data))
	}
	r.Labels["c18-target-verified"] = true
	// sources in use are watched: cache label + the real EnqueueWatchingObjects maps a source event to the template
	var tmplType client.Object = &corev1alpha1.ObjectTemplate{}
	if tmplNS == "" {
		tmplType = &corev1alpha1.ClusterObjectTemplate{}
	}
	enq := dynamiccache.NewEnqueueWatchingObjects(r.W.Cache, tmplType, r.W.Scheme)
	for _, sk := range exp.Sources {
		so := r.W.Store.Peek(sk)
		if so == nil {
			continue
		}
		if !engine.HasCacheLabel(so) {
			return Violf("C18", "source-without-cache-label", "pass %d: source %s is in use by %s but does not carry the dynamic cache label, its changes will not be seen", pv.P.ID, sk, name)
		}
		q := &nullQueue{}
		enq.Update(context.Background(), event.UpdateEvent{ObjectOld: &unstructured.Unstructured{Object: so}, ObjectNew: &unstructured.Unstructured{Object: so}}, q)
		found := false
		for _, it := range q.items {
			if it.Name == name && it.Namespace == tmplNS {
				found = true
			}
		}
		if !found {
			return Violf("C18", "source-change-not-routed", "pass %d: a change of source %s would not enqueue ObjectTemplate %s (watch owners: %v)", pv.P.ID, sk, name, r.W.Cache.OwnersForGKV(engine.GVKOf(so)))
		}
	}
	return nil
}

// AfterStep: at quiescence every existing, renderable template has produced its target (bounded liveness).
func (m *C18Monitor) AfterStep(r *Runner, idx int, st Step) error {
	// "deleting the ObjectTemplate releases its watches": a template that is gone (also one that never had a successful pass
	// and so, possibly, no finalizer to hold it back) must not own watch registrations any more
	live := map[string]bool{}
	for _, cluster := range []bool{false, true} {
		if t := r.W.Store.PeekNoCopy(otKey(cluster)); t != nil {
			live[engine.UID(t)] = true
		}
	}
	for uid := range m.Spec {
		if !live[uid] {
			if n := r.W.Cache.OwnerCount(uid); n != 0 {
				return Violf("C18", "watches-not-released", "after step %d (%s): the ObjectTemplate with uid %s no longer exists but still holds %d watch registrations", idx, st.Op, uid, n)
			}
			r.Labels["c18-deleted-template-checked"] = true
		}
	}
	if st.Op != "quiesce" || !r.LastQuiesceOK {
		return nil
	}
	for _, cluster := range []bool{false, true} {
		k := otKey(cluster)
		tmpl := r.W.Store.PeekNoCopy(k)
		if tmpl == nil || OwnerDeleting(tmpl) {
			continue
		}
		spec, ok := m.Spec[engine.UID(tmpl)]
		if !ok {
			continue
		}
		env := PkgEnvs[mod(r.EnvIdx, len(PkgEnvs))]
		exp := otExpect(r.W.Store, spec, k.Namespace, env.KubeVersion, r.HyperShift)
		inv := engine.Conditions(tmpl)["package-operator.run/Invalid"].Status
		if exp.Class != "" {
			if inv != "True" {
				return Violf("C18", "invalid-not-reported-at-quiescence:"+exp.Class, "quiescent: ObjectTemplate %s is %s but its Invalid condition is %q", k.Name, exp.Class, inv)
			}
			continue
		}
		targetKind, targetGroup := "ConfigMap", ""
		field := "data"
		if spec.TargetKind == "ClusterWidget" {
			targetKind, targetGroup, field = "ClusterWidget", engine.WidgetGroup, "spec"
		}
		tns := k.Namespace
		if tns == "" {
			tns = spec.TargetNS
			if tns == "" {
				tns = engine.NSMain
			}
		}
		tk := kubesim.Key{Group: targetGroup, Kind: targetKind, Namespace: tns, Name: otTarget}
		if targetKind == "ClusterWidget" {
			tk.Namespace = ""
		}
		target := r.W.Store.PeekNoCopy(tk)
		if target == nil {
			return Violf("C18", "target-missing-at-quiescence", "quiescent: ObjectTemplate %s is renderable but %s does not exist", k.Name, tk)
		}
		got := map[string]string{}
		for kk, v := range asMap(target[field]) {
			got[kk] = fmt.Sprint(v)
		}
		if fmt.Sprint(sortedKV(got)) != fmt.Sprint(sortedKV(exp.Data)) {
			return Violf("C18", "target-stale-at-quiescence", "quiescent: %s has %v, the current sources render to %v", tk, sortedKV(got), sortedKV(exp.Data))
		}
	}
	return nil
}

func sortedKV(m map[string]string) []string {
	var out []string
	for k, v := range m {
		out = append(out, k+"="+v)
	}
	sort.Strings(out)
	return out
}

func otKey(cluster bool) kubesim.Key {
	if cluster {
		return kubesim.Key{Group: engine.PKOGroup, Kind: "ClusterObjectTemplate", Name: otName}
	}
	return kubesim.Key{Group: engine.PKOGroup, Kind: "ObjectTemplate", Namespace: engine.NSMain, Name: otName}
}

func init() {
	setTemplate := func(r *Runner, st Step, create bool) {
		if st.OT == nil {
			return
		}
		s := *st.OT
		r.W.ActAs("user", func(c client.Client) {
			var obj client.Object
			if s.Cluster {
				o := &corev1alpha1.ClusterObjectTemplate{}
				o.Name = otName
				obj = o
			} else {
				o := &corev1alpha1.ObjectTemplate{}
				o.Name, o.Namespace = otName, engine.NSMain
				obj = o
			}
			if !create {
				if c.Get(r.W.Ctx, client.ObjectKeyFromObject(obj), obj) != nil {
					return
				}
			}
			switch o := obj.(type) {
			case *corev1alpha1.ObjectTemplate:
				o.Spec.Template, o.Spec.Sources = s.templateText(), s.apiSources()
			case *corev1alpha1.ClusterObjectTemplate:
				o.Spec.Template, o.Spec.Sources = s.templateText(), s.apiSources()
			}
			var err error
			if create {
				err = c.Create(r.W.Ctx, obj)
			} else {
				err = c.Update(r.W.Ctx, obj)
			}
			if err == nil {
				for _, m := range r.Monitors {
					if cm, ok := m.(*C18Monitor); ok {
						if cm.Spec == nil {
							cm.Spec = map[string]OTSpec{}
						}
						cm.Spec[string(obj.GetUID())] = s
					}
				}
			}
		})
	}
	extraOps["createTemplate"] = func(r *Runner, st Step) error { setTemplate(r, st, true); return nil }
	extraOps["editTemplate"] = func(r *Runner, st Step) error { setTemplate(r, st, false); return nil }
	extraOps["deleteTemplate"] = func(r *Runner, st Step) error {
		r.W.ActAs("user", func(c client.Client) {
			for _, cl := range []bool{false, true} {
				if o := r.W.Store.Peek(otKey(cl)); o != nil {
					_ = c.Delete(r.W.Ctx, engine.U(o))
				}
			}
		})
		return nil
	}
	// hostedCluster creates (On) or deletes HostedCluster ns/<a|b>, whose control-plane namespace is ns-a / ns-b
	extraOps["hostedCluster"] = func(r *Runner, st Step) error {
		name := []string{"a", "b"}[mod(st.I, 2)]
		r.W.ActAs("thirdparty", func(c client.Client) {
			nsObj := &unstructured.Unstructured{Object: map[string]any{"apiVersion": "v1", "kind": "Namespace", "metadata": map[string]any{"name": "ns"}}}
			_ = c.Create(r.W.Ctx, nsObj)
			hc := &unstructured.Unstructured{Object: map[string]any{"apiVersion": "hypershift.openshift.io/v1beta1", "kind": "HostedCluster",
				"metadata": map[string]any{"name": name, "namespace": "ns"}}}
			if st.On {
				if c.Create(r.W.Ctx, hc) == nil {
					r.Labels["hosted-cluster-created"] = true
				}
			} else if c.Delete(r.W.Ctx, hc) == nil {
				r.Labels["hosted-cluster-deleted"] = true
			}
		})
		return nil
	}
	// createTemplate2: a second, simple ObjectTemplate in the other namespace that renders the hosted cluster of *its* namespace
	extraOps["createTemplate2"] = func(r *Runner, st Step) error {
		r.W.ActAs("user", func(c client.Client) {
			o := &corev1alpha1.ObjectTemplate{}
			o.Name, o.Namespace = "ot2", engine.NSOther
			o.Spec.Template = "apiVersion: v1\nkind: ConfigMap\nmetadata:\n  name: ot2-target\ndata:\n  hc: \"" + otHostedClusterExpr + "\"\n"
			_ = c.Create(r.W.Ctx, o)
		})
		return nil
	}
	// srcSet creates or edits a source object: I = source slot (0..3), J = value variant, S = "del" to delete
	extraOps["srcSet"] = func(r *Runner, st Step) error {
		slots := []kubesim.Key{
			{Kind: "ConfigMap", Namespace: engine.NSMain, Name: "src-0"},
			{Kind: "ConfigMap", Namespace: engine.NSMain, Name: "src-1"},
			{Kind: "Secret", Namespace: engine.NSMain, Name: "src-s"},
			{Kind: "ConfigMap", Namespace: engine.NSOther, Name: "src-0"},
		}
		k := slots[mod(st.I, len(slots))]
		r.W.ActAs("thirdparty", func(c client.Client) {
			cur := r.W.Store.Peek(k)
			if st.S == "del" {
				if cur != nil {
					_ = c.Delete(r.W.Ctx, engine.U(cur))
				}
				return
			}
			data := map[string]any{"k0": fmt.Sprintf("v%d", mod(st.J, 4)), "k1": fmt.Sprintf("w%d", mod(st.J/2, 3))}
			if mod(st.J, 7) == 6 {
				delete(data, "k1")
			}
			if mod(st.J, 7) == 5 {
				data["k0"] = "" // a value that becomes empty
			}
			if cur == nil {
				u := &unstructured.Unstructured{Object: map[string]any{"apiVersion": "v1", "kind": k.Kind, "metadata": map[string]any{"name": k.Name, "namespace": k.Namespace}, "data": data}}
				if st.S == "prelabel" {
					// somebody labelled the object with the cache label's key but another value: the cache selects on "True"
					u.SetLabels(map[string]string{constants.DynamicCacheLabel: []string{"true", "False", ""}[mod(st.J, 3)]})
					r.Labels["c18-source-prelabelled-with-other-value"] = true
				}
				_ = c.Create(r.W.Ctx, u)
				return
			}
			cur["data"] = data
			if st.S == "prelabel" {
				md := asMap(cur["metadata"])
				l := asMap(md["labels"])
				if l == nil {
					l = map[string]any{}
				}
				l[constants.DynamicCacheLabel] = []string{"true", "False", ""}[mod(st.J, 3)]
				md["labels"] = l
				r.Labels["c18-source-prelabelled-with-other-value"] = true
			}
			if c.Update(r.W.Ctx, engine.U(cur)) == nil {
				r.Labels["c18-source-edited"] = true
			}
		})
		return nil
	}
}
