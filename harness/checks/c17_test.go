package checks

import (
	"context"
	"encoding/json"
	"fmt"
	"strings"
	"testing"

	"k8s.io/apimachinery/pkg/apis/meta/v1/unstructured"
	"pgregory.net/rapid"

	internalprobing "package-operator.run/internal/probing"

	"package-operator.run/verifharness/engine"
	"package-operator.run/verifharness/kubesim"
	"package-operator.run/verifharness/refmodel"
)

type c17Case struct {
	Part   string                     `json:"part"`
	Probes []refmodel.RObjectSetProbe `json:"probes"`
	Object map[string]any             `json:"object"`
	// RawRule, when set, is a CEL rule that must be rejected at parse time (non-boolean).
	RawRule string `json:"rawRule,omitempty"`
}

var c17Paths = [][]string{{"status", "phase"}, {"status", "ready"}, {"spec", "size"}, {"spec", "flag"}, {"status", "nested", "a"}, {"metadata", "name"}, {"status", "missing"}, {"spec", "name", "deep"}}

func genExpr(t *rapid.T, depth int) *refmodel.Expr {
	k := rapid.IntRange(0, 9).Draw(t, "exprkind")
	if depth <= 0 && k >= 6 {
		k = k % 6
	}
	path := c17Paths[rapid.IntRange(0, len(c17Paths)-1).Draw(t, "path")]
	lit := func() any {
		switch rapid.IntRange(0, 3).Draw(t, "lit") {
		case 0:
			return rapid.SampledFrom([]string{"Ready", "Pending", "w-0", ""}).Draw(t, "s")
		case 1:
			return int64(rapid.IntRange(-1, 3).Draw(t, "i"))
		case 2:
			return rapid.Bool().Draw(t, "b")
		default:
			return int64(rapid.IntRange(0, 2).Draw(t, "i2"))
		}
	}
	switch k {
	case 0, 1:
		return &refmodel.Expr{Op: "eq", Path: path, Lit: lit()}
	case 2:
		return &refmodel.Expr{Op: "ne", Path: path, Lit: lit()}
	case 3:
		return &refmodel.Expr{Op: rapid.SampledFrom([]string{"gt", "lt"}).Draw(t, "cmp"), Path: path, Lit: int64(rapid.IntRange(-1, 3).Draw(t, "n"))}
	case 4:
		return &refmodel.Expr{Op: "has", Path: path}
	case 5:
		return &refmodel.Expr{Op: rapid.SampledFrom([]string{"true", "false"}).Draw(t, "const")}
	case 6:
		return &refmodel.Expr{Op: "not", Left: genExpr(t, depth-1)}
	case 7, 8:
		return &refmodel.Expr{Op: "and", Left: genExpr(t, depth-1), Right: genExpr(t, depth-1)}
	default:
		return &refmodel.Expr{Op: "or", Left: genExpr(t, depth-1), Right: genExpr(t, depth-1)}
	}
}

var c17Fields = []string{".spec.size", ".status.ready", ".status.phase", ".spec.name", ".missing.x", ".status.nested.a", "metadata.generation", ".status.observedGeneration", ".status.nested", "spec.flag"}

func genRProbes(t *rapid.T) []refmodel.RObjectSetProbe {
	n := rapid.IntRange(0, 3).Draw(t, "nentries")
	var out []refmodel.RObjectSetProbe
	for i := 0; i < n; i++ {
		p := refmodel.RObjectSetProbe{}
		switch rapid.IntRange(0, 4).Draw(t, "selkind") {
		case 0, 1, 2:
			p.Sel.Group, p.Sel.Kind = engine.WidgetGroup, "Widget"
		case 3:
			p.Sel.Group, p.Sel.Kind = "", "ConfigMap"
		default:
			p.Sel.Group, p.Sel.Kind = "apps", "Deployment"
		}
		if rapid.IntRange(0, 2).Draw(t, "haslabelsel") == 0 {
			p.Sel.HasLabelSelector = true
			if rapid.Bool().Draw(t, "ml") {
				p.Sel.MatchLabels = map[string]string{rapid.SampledFrom([]string{"app", "tier"}).Draw(t, "k"): rapid.SampledFrom([]string{"a", "b"}).Draw(t, "v")}
			}
			ne := rapid.IntRange(0, 2).Draw(t, "nexpr")
			for j := 0; j < ne; j++ {
				r := refmodel.LabelReq{Key: rapid.SampledFrom([]string{"app", "tier", "zone"}).Draw(t, "ek"), Op: rapid.SampledFrom([]string{"In", "NotIn", "Exists", "DoesNotExist"}).Draw(t, "op")}
				if r.Op == "In" || r.Op == "NotIn" {
					r.Values = []string{rapid.SampledFrom([]string{"a", "b"}).Draw(t, "ev")}
					if rapid.Bool().Draw(t, "two") {
						r.Values = append(r.Values, "c")
					}
				}
				p.Sel.Exprs = append(p.Sel.Exprs, r)
			}
		}
		ne := rapid.IntRange(0, 3).Draw(t, "nelem")
		for j := 0; j < ne; j++ {
			switch rapid.IntRange(0, 2).Draw(t, "ekind") {
			case 0:
				p.Probes = append(p.Probes, refmodel.RProbe{Kind: "condition",
					CondType:   rapid.SampledFrom([]string{"Available", "Ready", "Progressing"}).Draw(t, "ct"),
					CondStatus: rapid.SampledFrom([]string{"True", "False"}).Draw(t, "cs")})
			case 1:
				p.Probes = append(p.Probes, refmodel.RProbe{Kind: "fieldsEqual",
					FieldA: rapid.SampledFrom(c17Fields).Draw(t, "fa"), FieldB: rapid.SampledFrom(c17Fields).Draw(t, "fb")})
			default:
				p.Probes = append(p.Probes, refmodel.RProbe{Kind: "cel", CEL: genExpr(t, 2), CELMessage: rapid.SampledFrom([]string{fmt.Sprintf("rule-%d-%d failed", i, j), fmt.Sprintf("rule-%d-%d failed", i, j), "", " "}).Draw(t, "celmsg")})
			}
		}
		out = append(out, p)
	}
	return out
}

func genStatusConditions(t *rapid.T, gen int64) any {
	switch rapid.IntRange(0, 9).Draw(t, "condshape") {
	case 0:
		return "not-a-list"
	case 1:
		return map[string]any{"type": "Available"}
	case 2:
		return []any{}
	}
	n := rapid.IntRange(1, 3).Draw(t, "nconds")
	var l []any
	for i := 0; i < n; i++ {
		switch rapid.IntRange(0, 11).Draw(t, "centry") {
		case 0:
			l = append(l, "garbage")
		case 1:
			l = append(l, int64(7))
		case 2:
			l = append(l, map[string]any{"status": "True"})
		case 3:
			l = append(l, nil)
		default:
			c := map[string]any{
				"type":   rapid.SampledFrom([]string{"Available", "Ready", "Progressing"}).Draw(t, "ctype"),
				"status": rapid.SampledFrom([]string{"True", "False", "Unknown"}).Draw(t, "cstatus"),
			}
			switch rapid.IntRange(0, 4).Draw(t, "cog") {
			case 0:
				c["observedGeneration"] = gen
			case 1:
				c["observedGeneration"] = gen - 1
			case 2:
				c["observedGeneration"] = gen + 1
			case 3:
				c["observedGeneration"] = "x"
			}
			if rapid.IntRange(0, 9).Draw(t, "oddstatus") == 0 {
				c["status"] = true
			}
			l = append(l, c)
		}
	}
	return l
}

func genProbeObject(t *rapid.T) map[string]any {
	o := map[string]any{}
	switch rapid.IntRange(0, 3).Draw(t, "okind") {
	case 0, 1, 2:
		o["apiVersion"], o["kind"] = "verif.example/v1", "Widget"
	default:
		o["apiVersion"], o["kind"] = "v1", "ConfigMap"
	}
	gen := int64(rapid.IntRange(0, 3).Draw(t, "gen"))
	md := map[string]any{"name": rapid.SampledFrom([]string{"w-0", "cm-0"}).Draw(t, "name"), "namespace": "ns-a"}
	if gen > 0 || rapid.Bool().Draw(t, "gen0explicit") {
		md["generation"] = gen
	}
	if rapid.IntRange(0, 2).Draw(t, "haslabels") > 0 {
		l := map[string]any{}
		for _, k := range []string{"app", "tier", "zone"} {
			if rapid.Bool().Draw(t, "l"+k) {
				l[k] = rapid.SampledFrom([]string{"a", "b", "c"}).Draw(t, "lv"+k)
			}
		}
		md["labels"] = l
	}
	if rapid.IntRange(0, 2).Draw(t, "servermeta") == 0 {
		// what an object read from the API server carries besides the fields probes look at
		md["managedFields"] = []any{map[string]any{"manager": "package-operator", "operation": "Apply", "apiVersion": "v1", "fieldsType": "FieldsV1", "fieldsV1": map[string]any{"f:spec": map[string]any{}}}}
		md["resourceVersion"] = "41"
		md["uid"] = "uid-7"
		md["annotations"] = map[string]any{"package-operator.run/revision": "2"}
		md["ownerReferences"] = []any{map[string]any{"apiVersion": "package-operator.run/v1alpha1", "kind": "ObjectSet", "name": "os", "uid": "u", "controller": true}}
	}
	o["metadata"] = md
	spec := map[string]any{}
	if rapid.Bool().Draw(t, "hassize") {
		spec["size"] = int64(rapid.IntRange(0, 2).Draw(t, "size"))
	}
	if rapid.Bool().Draw(t, "hasflag") {
		spec["flag"] = rapid.Bool().Draw(t, "flag")
	}
	switch rapid.IntRange(0, 3).Draw(t, "specname") {
	case 0:
		spec["name"] = "w-0"
	case 1:
		spec["name"] = map[string]any{"deep": "Ready"}
	}
	if len(spec) > 0 || rapid.Bool().Draw(t, "emptyspec") {
		o["spec"] = spec
	}
	switch rapid.IntRange(0, 9).Draw(t, "statusshape") {
	case 0:
		// no status
	case 1:
		o["status"] = "not-a-map"
	case 2:
		o["status"] = map[string]any{}
	default:
		st := map[string]any{}
		switch rapid.IntRange(0, 5).Draw(t, "og") {
		case 0:
			st["observedGeneration"] = gen
		case 1:
			st["observedGeneration"] = gen - 1
		case 2:
			st["observedGeneration"] = gen + 1
		case 3:
			st["observedGeneration"] = "3"
		}
		if rapid.IntRange(0, 3).Draw(t, "hasconds") > 0 {
			st["conditions"] = genStatusConditions(t, gen)
		}
		switch rapid.IntRange(0, 4).Draw(t, "phase") {
		case 0:
			st["phase"] = "Ready"
		case 1:
			st["phase"] = "Pending"
		case 2:
			st["phase"] = int64(1)
		case 3:
			st["phase"] = nil
		}
		switch rapid.IntRange(0, 3).Draw(t, "ready") {
		case 0, 1:
			st["ready"] = int64(rapid.IntRange(0, 2).Draw(t, "readyv"))
		case 2:
			st["ready"] = "1"
		}
		switch rapid.IntRange(0, 3).Draw(t, "nested") {
		case 0:
			st["nested"] = map[string]any{"a": int64(rapid.IntRange(0, 2).Draw(t, "na"))}
		case 1:
			st["nested"] = "flat"
		case 2:
			st["nested"] = map[string]any{"a": []any{int64(1), "x"}}
		}
		o["status"] = st
	}
	return o
}

func runC17(c *c17Case) (nontrivial bool, labels []string, err error) {
	ctx := context.Background()
	if c.RawRule != "" {
		api := refmodel.API([]refmodel.RObjectSetProbe{{Sel: refmodel.RSelector{Group: engine.WidgetGroup, Kind: "Widget"}}})
		api[0].Probes = append(api[0].Probes, internalProbeCEL(c.RawRule))
		if _, perr := internalprobing.Parse(ctx, api); perr == nil {
			return true, []string{"nonbool-rule"}, Violf("C17", "non-boolean-cel-accepted", "CEL rule %q does not evaluate to bool but was accepted at parse time", c.RawRule)
		}
		return true, []string{"nonbool-rule"}, nil
	}
	prober, perr := internalprobing.Parse(ctx, refmodel.API(c.Probes))
	if perr != nil {
		return false, nil, fmt.Errorf("generated probes do not parse (%s): %v", refmodel.Describe(c.Probes), perr)
	}
	before := kubesim.DeepCopyJSON(c.Object)
	u := &unstructured.Unstructured{Object: c.Object}
	var ok bool
	var msgs []string
	func() {
		defer func() {
			if r := recover(); r != nil {
				err = Violf("C19", "panic-in-probing", "probing panicked: %v", r)
			}
		}()
		ok, msgs = prober.Probe(u)
	}()
	if err != nil {
		return false, nil, err
	}
	if !kubesim.JSONEqual(before, c.Object) {
		return false, nil, Violf("C17", "probing-mutated-object", "probing changed the object")
	}
	wantOK, wantFail := refmodel.Eval(c.Probes, before)
	selected := 0
	elem := 0
	for _, p := range c.Probes {
		if p.Sel.Selects(before) {
			selected++
			elem += len(p.Probes)
		}
	}
	if selected > 0 {
		labels = append(labels, "selected")
	}
	if wantFail > 0 {
		labels = append(labels, "some-fail")
	}
	if ok != wantOK {
		return false, labels, Violf("C17", "verdict-differs-from-reference",
			"probes %s on object %s: implementation says success=%v (%v), reference says %v (%d failing)", refmodel.Describe(c.Probes), mustJSON(before), ok, msgs, wantOK, wantFail)
	}
	if len(msgs) != wantFail {
		return false, labels, Violf("C17", "not-all-failures-reported",
			"probes %s on object %s: %d messages %v, reference counts %d failing probes", refmodel.Describe(c.Probes), mustJSON(before), len(msgs), msgs, wantFail)
	}
	// every message names its probe
	for _, m := range msgs {
		named := m == ".status outdated" || strings.HasPrefix(m, "CEL program failed")
		for _, p := range c.Probes {
			for _, e := range p.Probes {
				switch e.Kind {
				case "condition":
					if strings.HasPrefix(m, fmt.Sprintf("condition %q == %q", e.CondType, e.CondStatus)) {
						named = true
					}
				case "fieldsEqual":
					if strings.HasPrefix(m, fmt.Sprintf(`"%v" == "%v"`, e.FieldA, e.FieldB)) {
						named = true
					}
				case "cel":
					if m == e.CELMessage {
						named = true
					}
				}
			}
		}
		if !named {
			return false, labels, Violf("C17", "message-does-not-name-probe", "message %q names none of the probes %s", m, refmodel.Describe(c.Probes))
		}
	}
	return selected > 0 && elem > 0, labels, nil
}

func mustJSON(v any) string { b, _ := json.Marshal(v); return string(b) }

func TestC17(t *testing.T) {
	st := NewStats("C17", "probing", "case = generated probe list (condition / fieldsEqual / CEL from a mini-AST; kind + label selectors incl. matchExpressions; empty lists) x generated unstructured object (well-formed, missing, malformed status shapes; stale object-wide / per-condition observedGeneration; null values); oracle = independent evaluator R-probe (verdict, number of messages, message naming, object unchanged) + non-boolean CEL rules must be rejected at parse time; non-trivial = at least one probe entry with >=1 elementary probe selects the object")
	CheckOrReplay(t, st, func(data []byte) (any, error) {
		var c c17Case
		if err := json.Unmarshal(data, &c); err != nil {
			return nil, err
		}
		c.Object, _ = kubesim.Normalize(c.Object)
		_, _, err := runC17(&c)
		return &c, err
	}, func(rt *rapid.T) {
		c := &c17Case{Part: "probing"}
		if rapid.IntRange(0, 19).Draw(rt, "nonbool") == 0 {
			c.RawRule = rapid.SampledFrom([]string{"self.status.ready", "1 + 1", "'a'", "self", "self.metadata.name", "[1, 2]", "self.spec.size + 1", "has(self.status) ? 1 : 2"}).Draw(rt, "rule")
		} else {
			c.Probes = genRProbes(rt)
			c.Object = genProbeObject(rt)
		}
		saved := &c17Case{Part: c.Part, Probes: c.Probes, Object: kubesim.DeepCopyJSON(c.Object), RawRule: c.RawRule}
		nt, labels, err := runC17(c)
		st.Case(saved, nt, labels...)
		st.Report(rt, saved, err)
	})
}
