package checks

import (
	"fmt"

	"package-operator.run/verifharness/engine"
	"package-operator.run/verifharness/kubesim"
)

// classifyEntry is the independent preflight classifier: returns the violation class of a phase
// object entry for an owner in namespace ownerNS ("" = cluster-scoped owner), or "" if it is fine.
func classifyEntry(store *kubesim.Store, entry map[string]any, ownerNS string) string {
	o := asMap(entry["object"])
	gvk := engine.GVKOf(o)
	ki := store.Kind(gvk.GroupKind())
	if ki == nil {
		return "unknown-api"
	}
	if len(asList(asMap(o["metadata"])["ownerReferences"])) > 0 {
		return "preset-ownerreferences"
	}
	ns := kubesim.MetaString(o, "namespace")
	if ownerNS != "" {
		if !ki.Namespaced {
			if ns == "" {
				return "cluster-scoped-kind-under-namespaced-owner"
			}
			return "cluster-scoped-kind-with-namespace-under-namespaced-owner"
		}
		if ns != "" && ns != ownerNS {
			return "foreign-namespace"
		}
	} else if ki.Namespaced && ns == "" {
		return "no-namespace-under-cluster-owner"
	}
	if b, _ := asMap(o["spec"])["rejectMe"].(bool); b {
		return "dry-run-rejected"
	}
	return ""
}

func specKey(entry map[string]any) string {
	o := asMap(entry["object"])
	gvk := engine.GVKOf(o)
	return fmt.Sprintf("%s/%s %s/%s", gvk.Group, gvk.Kind, kubesim.MetaString(o, "namespace"), kubesim.MetaString(o, "name"))
}

// C11Monitor: no write before preflight passes, never outside the owner's namespace.
type C11Monitor struct {
	Classes map[string]int
}

func (m *C11Monitor) AfterPass(r *Runner, pv *PassView) error {
	if !isSetController(pv.P.Controller) && pv.P.Controller != engine.CtrlObjectSetPhase && pv.P.Controller != engine.CtrlClusterObjectSetPhase {
		return nil
	}
	if pv.Owner == nil || pv.P.Crashed {
		return nil
	}
	if m.Classes == nil {
		m.Classes = map[string]int{}
	}
	setPass := isSetController(pv.P.Controller)
	if !setPass && kubesim.LabelsOf(pv.Owner)["package-operator.run/phase-class"] != engine.ClassDefault {
		return nil
	}
	ownerNS := kubesim.MetaString(pv.Owner, "namespace")
	ownerName := kubesim.MetaString(pv.Owner, "name")
	ownerKind := asStr(pv.Owner["kind"])
	// (3) namespace confinement: every write of a namespaced owner stays inside its namespace, in rollout and teardown
	if ownerNS != "" {
		for _, c := range pv.Calls {
			if c.Actor != "pko" || !c.IsWrite() || c.DryRun {
				continue
			}
			ki := r.W.Store.Kind(engineGK(c.Key))
			if ki == nil {
				continue
			}
			if !ki.Namespaced || c.Key.Namespace != ownerNS {
				class := "foreign-namespace"
				if !ki.Namespaced {
					class = "cluster-scoped-kind-under-namespaced-owner"
				}
				changed := "no effect"
				if c.Changed() {
					changed = "changed the cluster"
				}
				return Violf("C11", "namespace-escape:"+class,
					"pass %d: namespaced %s %s/%s issued %s on %s (%s, err=%q)", pv.P.ID, ownerKind, ownerNS, ownerName, c.Verb, c.Key, changed, trunc(c.Err, 80))
			}
		}
	}
	if OwnerArchived(pv.Owner) || OwnerDeleting(pv.Owner) || OwnerPaused(pv.Owner) {
		return nil
	}
	phases := OwnerPhases(r.W.Store, pv.Owner)
	// duplicates across the whole set (ObjectSet level only)
	dup := false
	if setPass {
		seen := map[string]bool{}
		for _, ph := range phases {
			for _, e := range ph.Objs {
				k := specKey(e)
				if seen[k] {
					dup = true
				}
				seen[k] = true
			}
		}
	}
	written := func(keys []kubesim.Key) *kubesim.Call {
		set := map[kubesim.Key]bool{}
		for _, k := range keys {
			set[k] = true
		}
		for _, c := range pv.Calls {
			if c.Actor == "pko" && c.IsWrite() && !c.DryRun && set[c.Key] {
				return c
			}
		}
		return nil
	}
	reportedPreflight := func() bool {
		for _, sw := range pv.StatusWrites {
			if c, ok := engine.Conditions(asMap(sw.Body))["Available"]; ok && c.Status == "False" && c.Reason == "PreflightError" {
				return true
			}
		}
		return false
	}
	if dup {
		m.Classes["duplicate"]++
		r.Labels["c11-duplicate"] = true
		var all []kubesim.Key
		for _, ph := range phases {
			all = append(all, ph.Keys...)
			if ph.Class != "" {
				all = append(all, phaseObjectKey(pv.Owner, ph))
			}
		}
		if c := written(all); c != nil {
			return Violf("C11", "write-despite-duplicate", "pass %d: %s lists an object twice but PKO issued %s on %s", pv.P.ID, ownerName, c.Verb, c.Key)
		}
		if asInt(asMap(pv.Owner["status"])["revision"]) != 0 || len(asList(asMap(pv.Owner["spec"])["previous"])) == 0 {
			if !reportedPreflight() && !statusWriteFailed(pv) && pv.P.Err == "" {
				return Violf("C11", "duplicate-not-reported", "pass %d: %s lists an object twice but Available=False/PreflightError was not persisted", pv.P.ID, ownerName)
			}
			if reportedPreflight() && pv.P.Result.RequeueAfter <= 0 {
				return Violf("C11", "preflight-not-retried", "pass %d: %s reported PreflightError without scheduling a retry", pv.P.ID, ownerName)
			}
		}
		return nil
	}
	// a server-side dry run that did not come back with a success (whatever the error: rejection, 500, 429, 503, timeout, lost
	// connection) has not passed: no object of that phase may be written in this pass
	// (a write can only be attributed to a phase if its object is listed in exactly one phase: the same cluster-scoped
	// object may be listed once with and once without a namespace)
	keyPhases := map[kubesim.Key]int{}
	for _, ph := range phases {
		seen := map[kubesim.Key]bool{}
		for _, k := range ph.Keys {
			if !seen[k] {
				seen[k] = true
				keyPhases[k]++
			}
		}
	}
	for _, ph := range phases {
		if ph.Class != "" && setPass {
			continue
		}
		inPhase := map[kubesim.Key]bool{}
		for _, k := range ph.Keys {
			inPhase[k] = true
		}
		failedDryRun := ""
		dryRunOK := map[kubesim.Key]bool{}
		for _, c := range pv.Calls {
			if c.Actor != "pko" || !inPhase[c.Key] {
				continue
			}
			// "unless every object of that phase passed preflight": whether the API server accepts an object is a fact about
			// the cluster now (admission, quota, the object's current state), so the acceptance has to come from this pass
			if c.DryRun && c.Err == "" && c.IsWrite() {
				dryRunOK[c.Key] = true
			}
			if c.IsWrite() && !c.DryRun && c.Verb != "delete" && keyPhases[c.Key] == 1 {
				for _, k := range ph.Keys {
					if !dryRunOK[k] {
						r.Labels["c11-write-without-dry-run"] = true
						return Violf("C11", "write-without-dry-run-in-pass",
							"pass %d: PKO issued %s on %s of phase %q although no server-side dry run of %s was accepted in this pass", pv.P.ID, c.Verb, c.Key, ph.Name, k)
					}
				}
			}
			if c.DryRun && c.Err != "" && failedDryRun == "" {
				failedDryRun = c.Key.String() + ": " + trunc(c.Err, 80)
				r.Labels["c11-dry-run-failed"] = true
				if c.Injected {
					r.Labels["c11-dry-run-answered-with-injected-error"] = true
				}
				continue
			}
			if failedDryRun != "" && c.IsWrite() && !c.DryRun {
				return Violf("C11", "write-after-failed-dry-run",
					"pass %d: the dry run of %s did not succeed, but PKO issued %s on %s of the same phase %q", pv.P.ID, failedDryRun, c.Verb, c.Key, ph.Name)
			}
		}
	}
	probes := r.ProbesFor(pv.Owner)
	cluster := pv.P.Controller == engine.CtrlClusterObjectSet
	earlierOK := true
	for i, ph := range phases {
		if ph.Class != "" && setPass {
			// delegated: preflight is the phase controller's job; gate only
			if phaseFails(r, pv, ph, ownerName, ownerNS, probes, cluster) {
				earlierOK = false
			}
			continue
		}
		bad := ""
		badIdx := -1
		valid := 0
		for oi, e := range ph.Objs {
			if cl := classifyEntry(r.W.Store, e, ownerNS); cl != "" {
				if bad == "" {
					bad, badIdx = cl, oi
				}
			} else {
				valid++
			}
		}
		if bad != "" {
			m.Classes[bad]++
			r.Labels["c11-violating-phase"] = true
			if valid > 0 && badIdx > 0 {
				r.Labels["c11-mixed-phase-violator-not-first"] = true
			}
			// only keys listed in this phase alone: a write on an object that an earlier, valid phase lists too belongs there
			var own []kubesim.Key
			for _, k := range ph.Keys {
				if keyPhases[k] == 1 {
					own = append(own, k)
				}
			}
			if c := written(own); c != nil {
				return Violf("C11", "write-in-phase-failing-preflight:"+bad,
					"pass %d: phase %d %q of %s %s contains an object violating preflight (%s) but PKO issued %s on %s of that phase",
					pv.P.ID, i, ph.Name, ownerKind, ownerName, bad, c.Verb, c.Key)
			}
			if earlierOK && pv.P.Err == "" && OwnerRevisionInPass(pv) != 0 {
				if !reportedPreflight() && !statusWriteFailed(pv) {
					return Violf("C11", "preflight-violation-not-reported:"+bad,
						"pass %d: phase %q of %s %s contains a %s object, all earlier phases passed, but Available=False/PreflightError was not persisted (result=%v)", pv.P.ID, ph.Name, ownerKind, ownerName, bad, pv.P.Result)
				}
				if reportedPreflight() && pv.P.Result.RequeueAfter <= 0 {
					return Violf("C11", "preflight-not-retried", "pass %d: %s reported PreflightError without scheduling a retry", pv.P.ID, ownerName)
				}
			}
			return nil
		}
		ph2 := ph
		if !setPass {
			ph2.Class = ""
		}
		if phaseFails(r, pv, ph2, ownerName, ownerNS, probes, cluster) {
			earlierOK = false
		}
	}
	return nil
}

func engineGK(k kubesim.Key) (gk struct{ Group, Kind string }) {
	return struct{ Group, Kind string }{k.Group, k.Kind}
}
