package checks

import (
	"testing"

	"pgregory.net/rapid"

	"package-operator.run/verifharness/engine"
)

var brokenKinds = []string{"no-manifest", "two-manifests", "bad-phase", "missing-phase-annotation", "duplicate-object", "bad-yaml", "bad-template", "missing-key-template"}

// genPkgPool draws 2-4 package images: mostly valid, some with one class of invalidity or a constraint.
func genPkgPool(t *rapid.T, allowInvalid bool) []PkgDesc {
	n := rapid.IntRange(2, 4).Draw(t, "npkgs")
	var out []PkgDesc
	for i := 0; i < n; i++ {
		d := GenPkg(t, 4)
		if allowInvalid {
			switch rapid.IntRange(0, 9).Draw(t, "flavour") {
			case 0, 1:
				d.Broken = rapid.SampledFrom(brokenKinds).Draw(t, "broken")
			case 2:
				d.RequireOpenShift = true
			case 3:
				d.KubeRange = rapid.SampledFrom([]string{">=1.25.0", "<1.25.0", ">=1.28.0"}).Draw(t, "range")
			case 4:
				d.ConfigRequired = true
			case 5:
				d.Scopes = []string{"Cluster"}
			case 6:
				d.OpenShiftRange = rapid.SampledFrom([]string{">=4.0.0", "<4.0.0", ">=4.20.0"}).Draw(t, "osrange")
			}
		}
		// images of the same package name may carry different configuration schemas (extra property with a default) and
		// templates that print the admitted value
		if rapid.IntRange(0, 2).Draw(t, "schemavariant") == 0 {
			d.SchemaVariant = rapid.IntRange(1, 2).Draw(t, "variant")
		}
		if rapid.IntRange(0, 1).Draw(t, "useextra") == 0 {
		pick:
			for fi := range d.Files {
				if !d.Files[fi].Template {
					continue
				}
				for oi := range d.Files[fi].Objs {
					d.Files[fi].Objs[oi].Tmpl = "extra"
					break pick
				}
			}
		}
		out = append(out, d)
	}
	return out
}

func genPackageWorld(t *rapid.T, prop string, allowInvalid bool, chunk []string) *Scenario {
	sc := &Scenario{Prop: prop, Pkgs: genPkgPool(t, allowInvalid)}
	cfgs := []int{0, 0, 1, 1, 2, 3, 4}
	if !allowInvalid {
		cfgs = []int{0, 1}
	}
	sc.Steps = append(sc.Steps, Step{Op: "createPackage", I: rapid.IntRange(0, len(sc.Pkgs)-1).Draw(t, "img"),
		J: rapid.SampledFrom(cfgs).Draw(t, "cfg"), S: rapid.SampledFrom(chunk).Draw(t, "chunk")})
	ctrls := []string{engine.CtrlPackage, engine.CtrlPackage, engine.CtrlPackage, engine.CtrlObjectDeployment, engine.CtrlObjectSet, engine.CtrlObjectSetPhase}
	n := rapid.IntRange(4, 26).Draw(t, "nsteps")
	for i := 0; i < n; i++ {
		switch k := rapid.IntRange(0, 15).Draw(t, "kind"); {
		case k <= 6:
			sc.Steps = append(sc.Steps, GenReconcile(t, ctrls))
		case k <= 8:
			sc.Steps = append(sc.Steps, Step{Op: "editPackage", I: rapid.IntRange(0, len(sc.Pkgs)-1).Draw(t, "img"), J: rapid.SampledFrom(cfgs).Draw(t, "cfg")})
		case k == 9 && allowInvalid:
			sc.Steps = append(sc.Steps, Step{Op: "pullError", I: rapid.IntRange(0, len(sc.Pkgs)-1).Draw(t, "img"), On: rapid.Bool().Draw(t, "on")})
		case k == 10 && allowInvalid:
			sc.Steps = append(sc.Steps, Step{Op: "setEnv", I: rapid.IntRange(0, len(PkgEnvs)-1).Draw(t, "env")})
		case k == 11:
			sc.Steps = append(sc.Steps, Step{Op: "fault", I: rapid.IntRange(0, 10).Draw(t, "ncall"), J: rapid.IntRange(0, 3).Draw(t, "fkind")})
		case k == 12:
			sc.Steps = append(sc.Steps, Step{Op: "restart"})
		case k == 13:
			if rapid.Bool().Draw(t, "pausedEdit") {
				// an edit made while the package is paused has to reach the deployment once it is unpaused
				sc.Steps = append(sc.Steps, Step{Op: "quiesce"}, Step{Op: "pausePackage", On: true})
				for j := rapid.IntRange(0, 2).Draw(t, "pausedPasses"); j > 0; j-- {
					sc.Steps = append(sc.Steps, GenReconcile(t, ctrls))
				}
				sc.Steps = append(sc.Steps, Step{Op: "editPackage", I: rapid.IntRange(0, len(sc.Pkgs)-1).Draw(t, "img"), J: rapid.SampledFrom(cfgs).Draw(t, "cfg")})
				for j := rapid.IntRange(0, 2).Draw(t, "pausedPasses2"); j > 0; j-- {
					sc.Steps = append(sc.Steps, GenReconcile(t, ctrls))
				}
				sc.Steps = append(sc.Steps, Step{Op: "pausePackage", On: false}, Step{Op: "quiesce"})
				continue
			}
			sc.Steps = append(sc.Steps, Step{Op: "pausePackage", On: rapid.Bool().Draw(t, "on")})
		case k == 14:
			// somebody else writes the ObjectDeployment (or Package, ObjectSet ...) between PKO's read and its write
			sc.Steps = append(sc.Steps, Step{Op: "injectTouch", I: rapid.IntRange(0, 3).Draw(t, "nwrite")}, Step{Op: "reconcile", Ctrl: engine.CtrlPackage})
		default:
			sc.Steps = append(sc.Steps, Step{Op: "quiesce"})
		}
	}
	return sc
}

func TestC16(t *testing.T) {
	st := NewStats("C16", "engine", "scenario = real Package controller + PackageDeployer with a scripted puller over a pool of 2-4 generated package images (valid; no/duplicate manifest; object/template/YAML validation failures; required config; platform / version constraints; unsupported scope) and sequences of Package spec edits (image, config incl. schema violations), pull failures, environment changes, API faults, restarts, pause; oracle = independent admissibility classifier + reference render R-render of the current spec; non-trivial = history with >=1 inadmissible and >=1 admissible-and-verified deployment pass")
	mk := func(sc *Scenario) (*Runner, *C16Monitor) {
		m := &C16Monitor{}
		r := NewRunner(sc, m)
		m.Env = &r.EnvIdx
		return r, m
	}
	CheckOrReplay(t, st, func(data []byte) (any, error) {
		return ReplayScenario(data, func(sc *Scenario) *Runner { r, _ := mk(sc); return r })
	}, func(rt *rapid.T) {
		sc := genPackageWorld(rt, "C16", true, []string{"", "", "EachObject", "NoOp"})
		r, m := mk(sc)
		err := r.Run()
		st.Count("passes", int64(len(r.W.Passes)))
		for c, n := range m.Classes {
			if c == "" {
				c = "admissible"
			}
			st.Count("class:"+c, int64(n))
		}
		st.Case(sc, r.Labels["c16-inadmissible"] && r.Labels["c16-template-verified"], r.LabelList()...)
		st.Report(rt, sc, err)
	})
}
