package checks

import (
	"encoding/json"
	"fmt"
	"os"
	"testing"
)

// TestDebugTrace prints the trace of a scenario file (development aid): -verif.replay=<file>.
func TestDebugTrace(t *testing.T) {
	if *flagReplay == "" || os.Getenv("VERIF_DEBUG") == "" {
		t.Skip()
	}
	data, _ := os.ReadFile(*flagReplay)
	var sc Scenario
	if err := json.Unmarshal(data, &sc); err != nil {
		t.Fatal(err)
	}
	r := NewRunner(&sc)
	err := r.Run()
	for _, c := range r.W.Store.Trace {
		if c.Actor == "setup" {
			continue
		}
		changed := ""
		if c.Changed() {
			changed = " CHANGED"
		}
		fmt.Printf("%4d p%-3d %-10s %-8s %-13s %-5s dry=%v %s err=%q%s\n", c.Seq, c.Pass, c.Actor, c.Source, c.Verb, c.PatchType, c.DryRun, c.Key, trunc(c.Err, 100), changed)
		if os.Getenv("VERIF_DEBUG_SEQ") == fmt.Sprint(c.Seq) {
			fmt.Printf("     diff: %s\n", diffSummary(c.Pre, c.Post))
		}
		if os.Getenv("VERIF_DEBUG_DUMP") == fmt.Sprint(c.Seq) {
			fmt.Printf("     post: %s\n     body: %s\n", mustJSON(c.Post), mustJSON(c.Body))
		}
	}
	for _, k := range r.W.Store.Keys() {
		b, _ := json.Marshal(r.W.Store.Peek(k))
		fmt.Printf("== %s\n%s\n", k, b)
	}
	for _, l := range r.Log {
		fmt.Println(l)
	}
	fmt.Println("err:", err)
}

// TestDebugC10 prints the end state of the disturbed run of a C10 case file (development aid).
func TestDebugC10(t *testing.T) {
	if *flagReplay == "" || os.Getenv("VERIF_DEBUG") == "" {
		t.Skip()
	}
	data, _ := os.ReadFile(*flagReplay)
	var c c10Case
	if err := json.Unmarshal(data, &c); err != nil {
		t.Fatal(err)
	}
	c10DebugDump = true
	defer func() { c10DebugDump = false }()
	_, err := runC10(c.Script, c.Dist)
	fmt.Println("err:", err)
}
