package checks

import (
	"encoding/json"
	"sort"

	"package-operator.run/verifharness/engine"
	"package-operator.run/verifharness/kubesim"
)

// templateFP fingerprints an ObjectSetTemplateSpec-shaped JSON value (phases, probes, successDelay).
func templateFP(spec map[string]any) string {
	m := map[string]any{}
	for _, f := range []string{"phases", "availabilityProbes", "successDelaySeconds"} {
		if v, ok := spec[f]; ok {
			m[f] = v
		}
	}
	n, _ := kubesim.Normalize(m)
	b, _ := json.Marshal(n)
	return string(b)
}

func depTemplateSpec(dep map[string]any) map[string]any {
	return asMap(asMap(asMap(dep["spec"])["template"])["spec"])
}

func setRevision(o map[string]any) int64 { return asInt(asMap(o["status"])["revision"]) }

// C07Monitor: one ObjectSet per template, unique increasing revisions.
type C07Monitor struct {
	epoch       int
	lastTmplFP  string
	createdFor  map[string]string // "epoch|fp" -> uid of the ObjectSet created for it
	maxAtCreate map[string]int64  // uid -> max revision existing at creation
	revOf       map[string]int64  // uid -> first non-zero revision
	seenUIDs    map[string]bool
	Creates     int
}

func (m *C07Monitor) init() {
	if m.createdFor == nil {
		m.createdFor = map[string]string{}
		m.maxAtCreate = map[string]int64{}
		m.revOf = map[string]int64{}
		m.seenUIDs = map[string]bool{}
	}
}

// depSetsAt lists the deployment's ObjectSets (controller ref uid == dep uid or label) at trace index idx.
func depSetsAt(r *Runner, idx int) []map[string]any {
	var out []map[string]any
	for _, k := range r.KeysAt(engine.PKOGroup, depSetKind(), idx) {
		o := r.StateAt(k, idx)
		if isDepSet(o) {
			out = append(out, o)
		}
	}
	sort.Slice(out, func(i, j int) bool {
		ri, rj := setRevision(out[i]), setRevision(out[j])
		if ri != rj {
			return ri < rj
		}
		return kubesim.MetaString(out[i], "name") < kubesim.MetaString(out[j], "name")
	})
	return out
}

func (m *C07Monitor) trackEpoch(r *Runner) {
	dep := r.W.Store.PeekNoCopy(depKey())
	if dep == nil {
		return
	}
	fp := templateFP(depTemplateSpec(dep))
	if fp != m.lastTmplFP {
		m.epoch++
		m.lastTmplFP = fp
	}
}

func (m *C07Monitor) AfterStep(r *Runner, idx int, st Step) error {
	m.init()
	m.trackEpoch(r)
	if err := m.history(r); err != nil {
		return err
	}
	if st.Op == "quiesce" && r.LastQuiesceOK && len(r.W.HiddenFromDeploy) == 0 {
		// at quiescence the newest revision carries the deployment's template (rolling back yields a new revision)
		dep := r.W.Store.PeekNoCopy(depKey())
		if dep == nil || OwnerDeleting(dep) {
			return nil
		}
		if p, _ := asMap(dep["spec"])["paused"].(bool); p {
			return nil
		}
		tmpl := depTemplateSpec(dep)
		if len(asList(tmpl["phases"])) == 0 {
			return nil
		}
		sets := depSetsAt(r, len(r.W.Store.Trace))
		if len(sets) == 0 {
			return Violf("C07", "no-revision-at-quiescence", "quiescent, unpaused deployment with a non-empty template has no ObjectSet")
		}
		newest := sets[len(sets)-1]
		if templateFP(asMap(newest["spec"])) != templateFP(tmpl) || lifecycleOf(newest) == "Archived" {
			return Violf("C07", "newest-revision-does-not-match-template-at-quiescence",
				"at quiescence the newest revision %s (rev %d, lifecycle %q) does not carry the deployment's template", kubesim.MetaString(newest, "name"), setRevision(newest), lifecycleOf(newest))
		}
	}
	return nil
}

func (m *C07Monitor) history(r *Runner) error {
	revs := map[int64]string{}
	for _, o := range r.DeploymentSets() {
		uid := engine.UID(o)
		rev := setRevision(o)
		if old, ok := m.revOf[uid]; ok && old != rev {
			return Violf("C07", "revision-changed", "revision of %s changed from %d to %d", kubesim.MetaString(o, "name"), old, rev)
		}
		if rev == 0 {
			continue
		}
		if _, ok := m.revOf[uid]; !ok {
			m.revOf[uid] = rev
			if mx, has := m.maxAtCreate[uid]; has && rev <= mx {
				return Violf("C07", "revision-not-greater",
					"ObjectSet %s got revision %d although revision %d already existed when it was created", kubesim.MetaString(o, "name"), rev, mx)
			}
		}
		if other, dup := revs[rev]; dup {
			return Violf("C07", "duplicate-revision", "ObjectSets %s and %s of one deployment both have revision %d", other, kubesim.MetaString(o, "name"), rev)
		}
		revs[rev] = kubesim.MetaString(o, "name")
	}
	return nil
}

func (m *C07Monitor) AfterPass(r *Runner, pv *PassView) error {
	m.init()
	m.trackEpoch(r)
	if isDepController(pv.P.Controller) {
		base := pv.P.FirstSeq
		for ci, c := range pv.Calls {
			if c.Actor != "pko" || c.Key.Kind != depSetKind() || c.DryRun {
				continue
			}
			idx := base + ci
			if c.Verb == "update" && c.Err == "" && c.Pre != nil && c.Post != nil {
				if lifecycleOf(c.Pre) == "Archived" && lifecycleOf(c.Post) != "Archived" {
					return Violf("C07", "archived-revision-reused", "pass %d: %s was archived and was made %q again", pv.P.ID, c.Key, lifecycleOf(c.Post))
				}
				if templateFP(asMap(c.Pre["spec"])) != templateFP(asMap(c.Post["spec"])) {
					return Violf("C07", "revision-spec-rewritten", "pass %d: the template of existing revision %s was changed", pv.P.ID, c.Key)
				}
			}
			if c.Verb != "create" || (c.Err != "" && !(c.Injected && c.Pre == nil && c.Post != nil)) {
				// (a create whose response was lost still took effect: Post is set, Err too)
				continue
			}
			m.Creates++
			dep := r.StateAt(depKey(), idx)
			if dep == nil {
				continue
			}
			created := asMap(c.Body)
			if p, _ := asMap(dep["spec"])["paused"].(bool); p {
				return Violf("C07", "created-while-paused", "pass %d: ObjectSet %s created while the deployment is paused", pv.P.ID, c.Key.Name)
			}
			tmpl := depTemplateSpec(dep)
			if len(asList(tmpl["phases"])) == 0 {
				return Violf("C07", "created-for-empty-template", "pass %d: ObjectSet %s created although the template has no phases", pv.P.ID, c.Key.Name)
			}
			existing := depSetsAt(r, idx)
			// circumstance: did the pass's own list miss ObjectSets that exist (create-not-yet-visible window)?
			circ := ""
			listed := map[string]bool{}
			for _, lc := range pv.Calls[:ci] {
				if lc.Verb == "list" && lc.Key.Kind == depSetKind() {
					for _, n := range asList(lc.Body) {
						listed[asStr(n)] = true
					}
				}
			}
			for _, o := range existing {
				if !listed[kubesim.MetaString(o, "namespace")+"/"+kubesim.MetaString(o, "name")] {
					circ = ":stale-list-after-template-edit"
				}
			}
			var names []string
			maxRev := int64(0)
			for _, o := range existing {
				names = append(names, kubesim.MetaString(o, "name"))
				if setRevision(o) == 0 {
					return Violf("C07", "created-while-revision-unreported"+circ,
						"pass %d: ObjectSet %s created while %s has not reported its revision yet", pv.P.ID, c.Key.Name, kubesim.MetaString(o, "name"))
				}
				if setRevision(o) > maxRev {
					maxRev = setRevision(o)
				}
			}
			if templateFP(asMap(created["spec"])) != templateFP(tmpl) {
				return Violf("C07", "created-spec-differs-from-template", "pass %d: ObjectSet %s was created with a spec different from the deployment template", pv.P.ID, c.Key.Name)
			}
			var prev []string
			for _, p := range asList(asMap(created["spec"])["previous"]) {
				prev = append(prev, asStr(asMap(p)["name"]))
			}
			sort.Strings(prev)
			sort.Strings(names)
			if !strSliceEq(prev, names) {
				return Violf("C07", "previous-list-incomplete"+circ,
					"pass %d: ObjectSet %s created with previous=%v but the deployment's existing ObjectSets are %v", pv.P.ID, c.Key.Name, prev, names)
			}
			fp := templateFP(tmpl)
			ek := itoa(m.epoch) + "|" + fp
			if uid, dup := m.createdFor[ek]; dup {
				for _, o := range existing {
					if engine.UID(o) == uid {
						return Violf("C07", "second-objectset-for-same-template",
							"pass %d: ObjectSet %s created for a template for which %s was already created and still exists", pv.P.ID, c.Key.Name, kubesim.MetaString(o, "name"))
					}
				}
			}
			if c.Post != nil {
				uid := engine.UID(c.Post)
				if m.seenUIDs[uid] {
					return Violf("C07", "uid-reused", "pass %d: created ObjectSet uid seen before", pv.P.ID)
				}
				m.seenUIDs[uid] = true
				m.createdFor[ek] = uid
				m.maxAtCreate[uid] = maxRev
			}
		}
	}
	return m.history(r)
}

func strSliceEq(a, b []string) bool {
	if len(a) != len(b) {
		return false
	}
	for i := range a {
		if a[i] != b[i] {
			return false
		}
	}
	return true
}

func itoa(i int) string {
	b, _ := json.Marshal(i)
	return string(b)
}
