package checks

import (
	"fmt"
	"strings"

	"package-operator.run/verifharness/engine"
	"package-operator.run/verifharness/kubesim"
	"package-operator.run/verifharness/refmodel"
)

const pausedByParentAnnotation = "package-operator.run/paused-by-parent"

// C09Monitor: paused means hands-off.
type C09Monitor struct {
	PausedPasses int
}

func lifecycleOf(o map[string]any) string { return asStr(asMap(o["spec"])["lifecycleState"]) }

func (m *C09Monitor) AfterPass(r *Runner, pv *PassView) error {
	switch {
	case isSetController(pv.P.Controller) || isPhaseController(pv.P.Controller):
		return m.afterSetPass(r, pv)
	case isDepController(pv.P.Controller):
		return m.afterDeploymentPass(r, pv)
	}
	return nil
}

// parentPausedAndAcknowledged: the ObjectSetPhase's parent ObjectSet is paused in spec and its controller has
// already processed that generation (its Paused condition refers to the current generation), i.e. the
// pause had its chance to propagate.
func parentPausedAndAcknowledged(r *Runner, pv *PassView) (map[string]any, bool) {
	cr, ok := engine.ControllerRef(pv.Owner)
	if !ok {
		return nil, false
	}
	kind := "ObjectSet"
	if asStr(pv.Owner["kind"]) == "ClusterObjectSetPhase" {
		kind = "ClusterObjectSet"
	}
	pk := kubesim.Key{Group: engine.PKOGroup, Kind: kind, Namespace: kubesim.MetaString(pv.Owner, "namespace"), Name: cr.Name}
	parent := r.StateAt(pk, pv.P.FirstSeq)
	if parent == nil || engine.UID(parent) != cr.UID || !OwnerPaused(parent) || OwnerDeleting(parent) {
		return nil, false
	}
	c, has := engine.Conditions(parent)["Paused"]
	if !has || c.ObservedGeneration != engine.Generation(parent) {
		return nil, false
	}
	// ... and the ObjectSet controller has completed a pass over the paused parent since the phase object (last) became
	// unpaused: a phase object somebody unpaused directly (or re-created) is only the ObjectSet controller's business
	// from its next pass on; until then the phase controller rightly follows what the phase object says.
	tr := r.W.Store.Trace
	unpausedAt := -1
	for i := pv.P.FirstSeq - 1; i >= 0 && i < len(tr); i-- {
		c := tr[i]
		if c.Key != pv.OwnerKey || !c.IsWrite() || c.DryRun || !c.Changed() || c.Post == nil {
			continue
		}
		if p, _ := asMap(c.Post["spec"])["paused"].(bool); p {
			break // paused before that: the phase we look at would be paused
		}
		pre, _ := asMap(asMap(c.Pre)["spec"])["paused"].(bool)
		if c.Pre == nil || pre {
			unpausedAt = i
			break
		}
	}
	if unpausedAt < 0 {
		return nil, false
	}
	for _, p2 := range r.W.Passes {
		if !isSetController(p2.Controller) || p2.Crashed || p2.Err != "" || p2.FirstSeq <= unpausedAt || p2.LastSeq > pv.P.FirstSeq {
			continue
		}
		if p2.Req.Name != pk.Name || p2.Req.Namespace != pk.Namespace {
			continue
		}
		if at := r.StateAt(pk, p2.FirstSeq); at != nil && engine.UID(at) == cr.UID && OwnerPaused(at) && !OwnerDeleting(at) && !OwnerArchived(at) {
			return parent, true
		}
	}
	return nil, false
}

func (m *C09Monitor) afterSetPass(r *Runner, pv *PassView) error {
	if pv.Owner != nil && isPhaseController(pv.P.Controller) && !OwnerPaused(pv.Owner) && !OwnerDeleting(pv.Owner) && !pv.P.Crashed {
		if parent, ok := parentPausedAndAcknowledged(r, pv); ok {
			r.Labels["c09-phase-pass-under-paused-parent"] = true
			for _, ph := range OwnerPhases(r.W.Store, pv.Owner) {
				set := map[kubesim.Key]bool{}
				for _, k := range ph.Keys {
					set[k] = true
				}
				for _, c := range pv.Calls {
					if c.Actor == "pko" && c.IsWrite() && !c.DryRun && set[c.Key] {
						return Violf("C09", "delegated-phase-writes-while-objectset-paused",
							"pass %d: ObjectSet %s is paused (and has reported on that generation: Paused=%s) but its delegated phase %s is not paused and issued %s on %s",
							pv.P.ID, kubesim.MetaString(parent, "name"), engine.Conditions(parent)["Paused"].Status, kubesim.MetaString(pv.Owner, "name"), c.Verb, c.Key)
					}
				}
			}
		}
	}
	if pv.Owner == nil || !OwnerPaused(pv.Owner) || OwnerArchived(pv.Owner) || OwnerDeleting(pv.Owner) || pv.P.Crashed {
		return nil
	}
	setPass := isSetController(pv.P.Controller)
	if !setPass {
		cls := kubesim.LabelsOf(pv.Owner)["package-operator.run/phase-class"]
		want := engine.ClassDefault
		if pv.P.Controller == engine.CtrlRemotePhase {
			want = engine.ClassRemote
		}
		if cls != want {
			return nil
		}
	}
	m.PausedPasses++
	cluster := pv.P.Controller == engine.CtrlClusterObjectSet
	ownerName := kubesim.MetaString(pv.Owner, "name")
	ownerNS := kubesim.MetaString(pv.Owner, "namespace")
	ownerID := OwnerIDOf(pv.Owner)
	annot := pv.P.Controller == engine.CtrlRemotePhase
	phases := OwnerPhases(r.W.Store, pv.Owner)
	listed := map[kubesim.Key]bool{}
	hasDelegated := false
	for _, ph := range phases {
		if ph.Class != "" && setPass {
			hasDelegated = true
		}
		for _, k := range ph.Keys {
			listed[k] = true
		}
	}
	for _, c := range pv.Calls {
		if c.Actor == "pko" && c.IsWrite() && !c.DryRun && listed[c.Key] {
			return Violf("C09", "write-while-paused",
				"pass %d: %s %s is paused but PKO issued %s on %s", pv.P.ID, ownerID.Kind, ownerName, c.Verb, c.Key)
		}
	}
	// drift observed while paused?
	for k := range listed {
		o := r.W.Store.PeekNoCopy(k)
		if o == nil || !ControlledByID(o, ownerID, annot) {
			r.Labels["c09-paused-pass-sees-drift"] = true
		}
	}
	if pv.P.Err != "" {
		return nil
	}
	if !pv.P.Result.IsZero() {
		return nil
	}
	// "keeps probing them and reporting Available and Paused": what stands in the status after a completed paused pass - the
	// status this pass wrote or, if it wrote none, the one it left standing - has to be the verdict over what it observed
	var conds map[string]engine.Cond
	if len(pv.StatusWrites) > 0 {
		conds = engine.Conditions(asMap(pv.StatusWrites[len(pv.StatusWrites)-1].Body))
	} else {
		cur := r.W.Store.PeekNoCopy(pv.OwnerKey)
		if cur == nil || engine.UID(cur) != engine.UID(pv.Owner) || engine.Generation(cur) != engine.Generation(pv.Owner) {
			return nil
		}
		r.Labels["c09-paused-pass-without-status-write"] = true
		conds = engine.Conditions(cur)
	}
	pc, hasP := conds["Paused"]
	if !hasP || pc.Status == "False" || (!hasDelegated && pc.Status != "True") {
		return Violf("C09", "paused-not-reported", "pass %d: %s %s is paused but the status written reports Paused=%q", pv.P.ID, ownerID.Kind, ownerName, pc.Status)
	}
	av, hasAv := conds["Available"]
	if !hasAv {
		return Violf("C09", "available-not-reported-while-paused", "pass %d: %s %s is paused and reports no Available condition", pv.P.ID, ownerID.Kind, ownerName)
	}
	if av.Reason != "Available" && av.Reason != "ProbeFailure" {
		return nil
	}
	probes := r.ProbesFor(pv.Owner)
	first := -1
	for i, ph := range phases {
		if setPass && phaseFails(r, pv, ph, ownerName, ownerNS, probes, cluster) {
			first = i
			break
		}
		if !setPass {
			ph2 := ph
			ph2.Class = ""
			if phaseFails(r, pv, ph2, ownerName, ownerNS, probes, cluster) {
				first = i
				break
			}
		}
	}
	if first >= 0 && av.Status != "False" {
		return Violf("C09", "paused-available-wrong", "pass %d: paused %s reports Available=%s although phase %q fails on the observed states", pv.P.ID, ownerName, av.Status, phases[first].Name)
	}
	if first < 0 && av.Status != "True" {
		return Violf("C09", "paused-available-wrong", "pass %d: paused %s reports Available=%s (%s) although all observed objects pass", pv.P.ID, ownerName, av.Status, trunc(av.Message, 100))
	}
	if first >= 0 && setPass && !strings.HasPrefix(av.Message, fmt.Sprintf("Phase %q failed", phases[first].Name)) {
		return Violf("C09", "paused-wrong-phase-named", "pass %d: paused %s: first failing phase %q, condition says %q", pv.P.ID, ownerName, phases[first].Name, trunc(av.Message, 100))
	}
	return nil
}

func (m *C09Monitor) afterDeploymentPass(r *Runner, pv *PassView) error {
	if pv.Owner == nil || pv.P.Crashed {
		return nil
	}
	paused, _ := asMap(pv.Owner["spec"])["paused"].(bool)
	depUID := engine.UID(pv.Owner)
	// state of the deployment's ObjectSets before the pass
	before := map[kubesim.Key]map[string]any{}
	for _, c := range pv.Calls {
		if c.Actor != "pko" || c.Key.Kind != depSetKind() || !c.IsWrite() || c.DryRun {
			continue
		}
		if _, seen := before[c.Key]; !seen {
			before[c.Key] = c.Pre
		}
	}
	if paused {
		r.Labels["c09-paused-deployment-pass"] = true
		for _, c := range pv.Calls {
			if c.Actor != "pko" || c.Key.Kind != depSetKind() || !c.IsWrite() || c.DryRun || c.Err != "" {
				continue
			}
			switch {
			case c.Verb == "create":
				return Violf("C09", "revision-created-while-paused", "pass %d: paused ObjectDeployment created %s", pv.P.ID, c.Key)
			case c.Verb == "delete":
				return Violf("C09", "revision-deleted-while-paused", "pass %d: paused ObjectDeployment deleted %s", pv.P.ID, c.Key)
			case c.Verb == "update" && lifecycleOf(c.Post) == "Archived" && lifecycleOf(c.Pre) != "Archived":
				return Violf("C09", "revision-archived-while-paused", "pass %d: paused ObjectDeployment archived %s", pv.P.ID, c.Key)
			}
		}
		// the controller deliberately waits (does nothing) while a revision has not reported its number yet
		waiting := false
		for _, o := range r.DeploymentSets() {
			if asInt(asMap(o["status"])["revision"]) == 0 {
				waiting = true
			}
		}
		if pv.P.Err == "" && !waiting {
			for _, o := range r.DeploymentSets() {
				if cr, ok := engine.ControllerRef(o); !ok || cr.UID != depUID {
					continue
				}
				if lifecycleOf(o) == "Archived" {
					continue
				}
				if lifecycleOf(o) != "Paused" || kubesim.AnnotationsOf(o)[pausedByParentAnnotation] != "true" {
					return Violf("C09", "revision-not-paused-by-parent",
						"pass %d: ObjectDeployment is paused but revision %s has lifecycleState=%q paused-by-parent=%q after the pass",
						pv.P.ID, kubesim.MetaString(o, "name"), lifecycleOf(o), kubesim.AnnotationsOf(o)[pausedByParentAnnotation])
				}
			}
		}
		return nil
	}
	// unpaused deployment: revisions released (Paused -> Active) must be exactly those the parent had paused
	for _, c := range pv.Calls {
		if c.Actor != "pko" || c.Key.Kind != depSetKind() || c.Verb != "update" || c.DryRun || c.Err != "" || c.Pre == nil || c.Post == nil {
			continue
		}
		if lifecycleOf(c.Pre) == "Paused" && lifecycleOf(c.Post) != "Paused" && lifecycleOf(c.Post) != "Archived" {
			r.Labels["c09-unpause-release"] = true
			if kubesim.AnnotationsOf(c.Pre)[pausedByParentAnnotation] != "true" {
				return Violf("C09", "released-revision-not-paused-by-parent",
					"pass %d: unpaused ObjectDeployment set %s to %q although the parent had not paused it", pv.P.ID, c.Key, lifecycleOf(c.Post))
			}
			if kubesim.AnnotationsOf(c.Post)[pausedByParentAnnotation] == "true" {
				// the marker is what "the parent had paused it" is decided from: left behind, a later pause by anybody else
				// (the user, the archival logic) would be released by the parent as well
				return Violf("C09", "released-revision-keeps-paused-by-parent-marker",
					"pass %d: ObjectDeployment released %s but left the paused-by-parent marker on it", pv.P.ID, c.Key)
			}
		}
	}
	waiting := false
	for _, o := range r.DeploymentSets() {
		if asInt(asMap(o["status"])["revision"]) == 0 {
			waiting = true
		}
	}
	if pv.P.Err == "" && !waiting {
		for _, o := range r.DeploymentSets() {
			if lifecycleOf(o) == "Paused" && kubesim.AnnotationsOf(o)[pausedByParentAnnotation] == "true" {
				if !pausedByParentWrite(r, o) {
					// the marker is a leftover: a user released the revision by hand after the parent had paused it (the marker
					// stays) and the current Paused state was set by someone else (the archival logic pausing an outgoing
					// revision, the user again). The statement speaks about revisions the parent paused; the next pass clears it.
					r.Labels["c09-stale-paused-by-parent-marker"] = true
					continue
				}
				if cr, ok := engine.ControllerRef(o); ok && cr.UID == depUID {
					return Violf("C09", "parent-paused-revision-not-released",
						"pass %d: ObjectDeployment is not paused but revision %s is still paused by parent after the pass", pv.P.ID, kubesim.MetaString(o, "name"))
				}
			}
		}
	}
	return nil
}

// pausedByParentWrite reports whether the write that put the revision into its current Paused state also set the
// paused-by-parent marker (i.e. it was the parent's pause), by scanning the trace backwards.
func pausedByParentWrite(r *Runner, o map[string]any) bool {
	uid := engine.UID(o)
	for i := len(r.W.Store.Trace) - 1; i >= 0; i-- {
		c := r.W.Store.Trace[i]
		if c.Key.Kind != "ObjectSet" && c.Key.Kind != "ClusterObjectSet" {
			continue
		}
		if c.Post == nil || engine.UID(c.Post) != uid || c.DryRun || !c.Changed() {
			continue
		}
		if lifecycleOf(c.Post) == "Paused" && (c.Pre == nil || lifecycleOf(c.Pre) != "Paused") {
			return c.Pre == nil || kubesim.AnnotationsOf(c.Pre)[pausedByParentAnnotation] != "true"
		}
	}
	return true
}

var _ = refmodel.Adopt
