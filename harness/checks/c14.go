package checks

import (
	"encoding/json"
	"fmt"
	"sort"
	"strings"

	"k8s.io/apimachinery/pkg/apis/meta/v1/unstructured"
	"sigs.k8s.io/controller-runtime/pkg/client"

	corev1alpha1 "package-operator.run/apis/core/v1alpha1"

	"package-operator.run/verifharness/engine"
	"package-operator.run/verifharness/kubesim"
)

// C14SliceGCMonitor: slice garbage collection never deletes a slice still referenced by the deployment
// template or by any existing ObjectSet; slices are never rewritten.
type C14SliceGCMonitor struct {
	Deletes  int
	Squatted int
}

func sliceRefs(spec map[string]any) []string {
	var out []string
	for _, p := range asList(spec["phases"]) {
		for _, s := range asList(asMap(p)["slices"]) {
			out = append(out, asStr(s))
		}
	}
	return out
}

func (m *C14SliceGCMonitor) AfterPass(r *Runner, pv *PassView) error {
	base := pv.P.FirstSeq
	for ci, c := range pv.Calls {
		if c.Actor != "pko" || c.Key.Kind != "ObjectSlice" || c.DryRun || c.Err != "" || !c.IsWrite() {
			continue
		}
		idx := base + ci
		switch c.Verb {
		case "delete":
			m.Deletes++
			r.Labels["c14-slice-deleted"] = true
			refd := map[string]string{}
			for _, k := range r.KeysAt(engine.PKOGroup, "ObjectDeployment", idx) {
				d := r.StateAt(k, idx)
				for _, s := range sliceRefs(depTemplateSpec(d)) {
					refd[s] = "ObjectDeployment " + k.Name
				}
			}
			onlyInvisible := map[string]bool{}
			for _, k := range r.KeysAt(engine.PKOGroup, "ObjectSet", idx) {
				o := r.StateAt(k, idx)
				for _, s := range sliceRefs(asMap(o["spec"])) {
					if _, already := refd[s]; !already {
						onlyInvisible[s] = r.W.HiddenFromDeploy[k]
					} else if !r.W.HiddenFromDeploy[k] {
						onlyInvisible[s] = false
					}
					refd[s] = "ObjectSet " + k.Name
				}
			}
			if by, ok := refd[c.Key.Name]; ok {
				key := "referenced-slice-deleted"
				if onlyInvisible[c.Key.Name] {
					// every referrer is an ObjectSet created a moment ago that the package controller's cached list does not show yet
					key += ":objectset-not-yet-visible-to-package-controller"
				}
				return Violf("C14", key, "pass %d: ObjectSlice %s was deleted while %s still references it", pv.P.ID, c.Key.Name, by)
			}
		case "update", "patch":
			if c.Pre != nil && c.Post != nil && !kubesim.JSONEqual(c.Pre["objects"], c.Post["objects"]) {
				return Violf("C14", "slice-content-rewritten", "pass %d: the objects of existing ObjectSlice %s were changed", pv.P.ID, c.Key.Name)
			}
		}
	}
	return nil
}

func init() {
	// a third party squats the name of a slice PKO deleted earlier, with other content and no owner
	// tpDeletePhase: a third party deletes one of the existing ObjectSetPhases (I = which): the ObjectSet re-creates it
	extraOps["tpDeletePhase"] = func(r *Runner, st Step) error {
		keys := r.byAge(append(r.W.ListKeys(engine.PKOGroup, "ObjectSetPhase"), r.W.ListKeys(engine.PKOGroup, "ClusterObjectSetPhase")...))
		if len(keys) == 0 {
			return nil
		}
		k := keys[mod(st.I, len(keys))]
		r.W.ActAs("thirdparty", func(c client.Client) {
			if o := r.W.Store.Peek(k); o != nil {
				if c.Delete(r.W.Ctx, engine.U(o)) == nil {
					r.Labels["phase-object-deleted-by-third-party"] = true
					r.Labels["drift-changed-state"] = true
				}
			}
		})
		return nil
	}
	// tpDeleteSlice: a third party deletes one of the existing ObjectSlices (I = which)
	extraOps["tpDeleteSlice"] = func(r *Runner, st Step) error {
		keys := append(r.W.ListKeys(engine.PKOGroup, "ObjectSlice"), r.W.ListKeys(engine.PKOGroup, "ClusterObjectSlice")...)
		if len(keys) == 0 {
			return nil
		}
		k := keys[mod(st.I, len(keys))]
		r.W.ActAs("thirdparty", func(c client.Client) {
			if o := r.W.Store.Peek(k); o != nil {
				if c.Delete(r.W.Ctx, engine.U(o)) == nil {
					r.Labels["slice-deleted-by-third-party"] = true
				}
			}
		})
		return nil
	}
	extraOps["tpSquatSlice"] = func(r *Runner, st Step) error {
		var names []string
		seen := map[string]bool{}
		for _, c := range r.W.Store.Trace {
			if c.Actor == "pko" && c.Verb == "delete" && c.Key.Kind == "ObjectSlice" && c.Err == "" && !seen[c.Key.Name] {
				seen[c.Key.Name] = true
				names = append(names, c.Key.Name)
			}
		}
		if len(names) == 0 {
			return nil
		}
		sort.Strings(names)
		name := names[mod(st.I, len(names))]
		r.W.ActAs("thirdparty", func(c client.Client) {
			sl := &unstructured.Unstructured{Object: map[string]any{}}
			sl.SetGroupVersionKind(corev1alpha1.GroupVersion.WithKind("ObjectSlice"))
			sl.SetName(name)
			sl.SetNamespace(engine.NSMain)
			obj := engine.Desired(engine.PoolObj{GVK: engine.GVKConfigMap, Name: "squatter"}, 5)
			obj.SetAnnotations(map[string]string{"package-operator.run/phase": "x"})
			sl.Object["objects"] = []any{map[string]any{"object": obj.Object}}
			if c.Create(r.W.Ctx, sl) == nil {
				r.Labels["c14-slice-name-squatted"] = true
			}
		})
		return nil
	}
}

// ---- differential: inline vs sliced --------------------------------------------------------------------

// projection of everything that must not depend on the encoding
func projectWorld(r *Runner) map[string]any {
	out := map[string]any{}
	for _, k := range r.W.Store.Keys() {
		o := r.W.Store.PeekNoCopy(k)
		switch {
		case k.Group != engine.PKOGroup && k.Kind != "Namespace":
			var owners []string
			for _, rf := range engine.OwnerRefs(o) {
				owners = append(owners, fmt.Sprintf("%s/%s ctrl=%v", rf.Kind, rf.Name, rf.Controller))
			}
			sort.Strings(owners)
			rev, _, _ := engine.RevisionOf(o)
			out[k.String()] = map[string]any{"owners": owners, "rev": rev, "data": o["data"], "spec": o["spec"], "labels": kubesim.LabelsOf(o),
				"deleting": kubesim.MetaString(o, "deletionTimestamp") != "", "finalizers": finalizers(o)}
		case k.Kind == "ObjectSet" || k.Kind == "ClusterObjectSet" || k.Kind == "ObjectSetPhase" || k.Kind == "ClusterObjectSetPhase":
			conds := map[string]string{}
			for t, c := range engine.Conditions(o) {
				msg := ""
				if t == "Available" && c.Reason == "ProbeFailure" {
					msg = c.Message
				}
				conds[t] = c.Status + "/" + c.Reason + "/" + msg
			}
			var co []string
			for _, e := range controllerOfList(asMap(o["status"])) {
				co = append(co, e.Group+"/"+e.Kind+"/"+e.Namespace+"/"+e.Name)
			}
			sort.Strings(co)
			p := map[string]any{"conds": conds, "controllerOf": co, "revision": asMap(o["status"])["revision"],
				"finalizers": finalizers(o), "deleting": kubesim.MetaString(o, "deletionTimestamp") != "", "lifecycle": lifecycleOf(o)}
			if strings.HasSuffix(k.Kind, "Phase") {
				p["objects"] = asMap(o["spec"])["objects"]
			}
			out[k.String()] = p
		}
	}
	return out
}

func poolWritesOf(r *Runner, from int) []string {
	var out []string
	for _, c := range r.W.Store.Trace[from:] {
		// no-op re-applies are not compared: their number depends on how many passes a variant needs
		// (e.g. the extra pass after the slice ownership update), not on what happens to the objects
		if c.Actor == "pko" && c.IsWrite() && !c.DryRun && c.Key.Group != engine.PKOGroup && (c.Changed() || c.Err != "") {
			out = append(out, fmt.Sprintf("%s %s err=%v", c.Verb, c.Key, c.Err != ""))
		}
	}
	return out
}

// RunDifferential executes two variants of a scenario step by step and compares projection and pool writes.
func RunDifferential(prop, keyPrefix string, a, b *Scenario, monsA, monsB []Monitor) (labels map[string]bool, err error) {
	ra, rb := NewRunner(a, monsA...), NewRunner(b, monsB...)
	for i := range a.Steps {
		fa, fb := len(ra.W.Store.Trace), len(rb.W.Store.Trace)
		if e := ra.Exec(i, a.Steps[i]); e != nil {
			return ra.Labels, e
		}
		if e := rb.Exec(i, b.Steps[i]); e != nil {
			return rb.Labels, e
		}
		wa, wb := poolWritesOf(ra, fa), poolWritesOf(rb, fb)
		if strings.Join(wa, "\n") != strings.Join(wb, "\n") {
			return rb.Labels, Violf(prop, keyPrefix+"-write-sequence-differs", "step %d (%+v): writes on managed objects differ\n  variant A: %v\n  variant B: %v", i, a.Steps[i].Op, wa, wb)
		}
		pa, pb := projectWorld(ra), projectWorld(rb)
		if !kubesim.JSONEqual(mustNorm(pa), mustNorm(pb)) {
			return rb.Labels, Violf(prop, keyPrefix+"-state-differs", "after step %d (%s) the projected cluster state differs: %s", i, a.Steps[i].Op, firstDiff(pa, pb))
		}
	}
	for l := range ra.Labels {
		rb.Labels[l] = true
	}
	return rb.Labels, nil
}

// canonNames replaces the generated names of the deployment's ObjectSets (which contain the template hash, and so depend
// on how the template is encoded) by their creation rank, everywhere in a projection or a list of writes.
func canonNames(r *Runner, v any) any {
	var names []string
	seen := map[string]bool{}
	for _, c := range r.W.Store.Trace {
		if c.Verb == "create" && (c.Key.Kind == "ObjectSet" || c.Key.Kind == "ClusterObjectSet") && c.Post != nil && !seen[c.Key.Name] {
			seen[c.Key.Name] = true
			names = append(names, c.Key.Name)
		}
	}
	js := mustJSON(v)
	for i, n := range names {
		js = strings.ReplaceAll(js, n, fmt.Sprintf("revision-created-#%d", i+1))
	}
	var out any
	if err := json.Unmarshal([]byte(js), &out); err != nil {
		panic(err)
	}
	// lists that were sorted by the generated names are sorted again
	if m, ok := out.(map[string]any); ok {
		for _, v := range m {
			if om, ok := v.(map[string]any); ok {
				if l, ok := om["owners"].([]any); ok {
					sort.Slice(l, func(i, j int) bool { return asStr(l[i]) < asStr(l[j]) })
				}
			}
		}
	}
	return out
}

// RunDifferentialDeploy is RunDifferential for deployment scenarios: generated ObjectSet names are canonicalised before
// comparing, ObjectSlices and the deployment object itself (whose template differs by construction) are not compared.
func RunDifferentialDeploy(prop, keyPrefix string, a, b *Scenario) (labels map[string]bool, err error) {
	ra, rb := NewRunner(a), NewRunner(b)
	for i := range a.Steps {
		fa, fb := len(ra.W.Store.Trace), len(rb.W.Store.Trace)
		// (the deployment flavour is a process-wide setting read by the step implementations)
		DepCluster = a.ClusterDep
		if e := ra.Exec(i, a.Steps[i]); e != nil {
			return ra.Labels, e
		}
		DepCluster = b.ClusterDep
		if e := rb.Exec(i, b.Steps[i]); e != nil {
			return rb.Labels, e
		}
		for _, c := range rb.W.Store.Trace[fb:] {
			if c.Actor == "pko" && (c.Key.Kind == "ObjectSet" || c.Key.Kind == "ClusterObjectSet") && c.Err == "" && !c.DryRun &&
				(c.Verb == "delete" || (c.Verb == "update" && c.Pre != nil && c.Post != nil && lifecycleOf(c.Pre) != "Archived" && lifecycleOf(c.Post) == "Archived")) {
				rb.Labels["revision-archived-or-pruned"] = true
			}
		}
		wa, wb := poolWritesOf(ra, fa), poolWritesOf(rb, fb)
		if strings.Join(wa, "\n") != strings.Join(wb, "\n") {
			return rb.Labels, Violf(prop, keyPrefix+"-write-sequence-differs", "step %d (%+v): writes on managed objects differ\n  variant A: %v\n  variant B: %v", i, a.Steps[i].Op, wa, wb)
		}
		pa, _ := canonNames(ra, projectWorld(ra)).(map[string]any)
		pb, _ := canonNames(rb, projectWorld(rb)).(map[string]any)
		if !kubesim.JSONEqual(pa, pb) {
			return rb.Labels, Violf(prop, keyPrefix+"-state-differs", "after step %d (%s) the projected cluster state differs: %s", i, a.Steps[i].Op, firstDiff(pa, pb))
		}
	}
	for l := range ra.Labels {
		rb.Labels[l] = true
	}
	return rb.Labels, nil
}

func mustNorm(v map[string]any) map[string]any {
	n, err := kubesim.Normalize(v)
	if err != nil {
		panic(err)
	}
	return n
}

func firstDiff(a, b map[string]any) string {
	na, nb := mustNorm(a), mustNorm(b)
	var keys []string
	for k := range na {
		keys = append(keys, k)
	}
	for k := range nb {
		if _, ok := na[k]; !ok {
			keys = append(keys, k)
		}
	}
	sort.Strings(keys)
	for _, k := range keys {
		if !kubesim.JSONEqual(na[k], nb[k]) {
			ma, oka := na[k].(map[string]any)
			mb, okb := nb[k].(map[string]any)
			if oka && okb {
				// name the differing fields first: the full values can be long
				var fields []string
				for f := range ma {
					if !kubesim.JSONEqual(ma[f], mb[f]) {
						fields = append(fields, fmt.Sprintf("%s: A=%s B=%s", f, trunc(mustJSON(ma[f]), 200), trunc(mustJSON(mb[f]), 200)))
					}
				}
				for f := range mb {
					if _, ok := ma[f]; !ok {
						fields = append(fields, fmt.Sprintf("%s: A=<absent> B=%s", f, trunc(mustJSON(mb[f]), 200)))
					}
				}
				sort.Strings(fields)
				return fmt.Sprintf("%s differs in [%s]", k, strings.Join(fields, "; "))
			}
			return fmt.Sprintf("%s: A=%s B=%s", k, trunc(mustJSON(na[k]), 500), trunc(mustJSON(nb[k]), 500))
		}
	}
	return "?"
}
