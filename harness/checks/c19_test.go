package checks

import (
	"archive/tar"
	"bytes"
	"context"
	"encoding/json"
	"fmt"
	"os"
	"path/filepath"
	"runtime/debug"
	"strconv"
	"strings"
	"testing"

	"github.com/google/go-containerregistry/pkg/v1/empty"
	"github.com/google/go-containerregistry/pkg/v1/mutate"
	"github.com/google/go-containerregistry/pkg/v1/static"
	"github.com/google/go-containerregistry/pkg/v1/types"
	"k8s.io/apiextensions-apiserver/pkg/apis/apiextensions"
	apiextensionsv1 "k8s.io/apiextensions-apiserver/pkg/apis/apiextensions/v1"
	"k8s.io/apimachinery/pkg/runtime"
	"k8s.io/apimachinery/pkg/util/validation/field"
	"pgregory.net/rapid"

	"package-operator.run/internal/apis/manifests"
	internalcmd "package-operator.run/internal/cmd"
	"package-operator.run/internal/packages"
)

// guard runs fn and converts a panic into a C19 violation.
func guard(target string, fn func()) (err error) {
	defer func() {
		if r := recover(); r != nil {
			st := string(debug.Stack())
			err = Violf("C19", "panic:"+panicKey(st), "%s panicked: %v\n%s", target, r, trunc(st, 1800))
		}
	}()
	fn()
	return nil
}

type c19FilesCase struct {
	Part  string            `json:"part"`
	Files map[string]string `json:"files"`
	Ctx   PkgCtx            `json:"ctx"`
	// DeathKey names the situation of a case that is expected to kill the process if the corresponding finding is not
	// repaired (the driver uses it as the violation key when the worker dies): "" for all ordinary cases.
	DeathKey string `json:"deathKey,omitempty"`
}

// templates that build a map containing itself and print it: fmt recurses until the stack is exhausted
var cyclicTemplates = []string{
	"{{ set .config \"self\" .config }}",
	"{{ $d := dict \"k\" 1 }}{{ $_ := set $d \"self\" $d }}{{ $d }}",
	"{{ merge .config (dict \"inner\" .config) }}",
	"{{ $d := dict \"k\" 1 }}{{ $_ := set $d \"self\" $d }}{{ deepCopy $d }}",
}

var hostileStrings = []string{"", " ", "=>", "a=>", "=>b", "a => b\nc", "\n", "{{", "}}", "{{ .config.x }}", "{{ include \"x\" . }}", "{{ template \"nope\" }}", "null", "~", "[]", "{}", "- a", "true", "0", "-1", "1e9", "\"", "'", "a: b: c", "\t", "---", "cond.nosuch", "1 +", "has(", "config.flag ? 1 : 2", "config.label", "config.flag", "config", "config.missing", "environment.kubernetes.version", "environment.openShift", "package.metadata.name", "config.label + 1", "[config.label][0]", "{\"a\": config.flag}[\"a\"]", "package-operator.run/phase", "../../etc/passwd", strings.Repeat("a", 300), "\u0000", "\u2028"}

func genHostile(t *rapid.T) string {
	if rapid.IntRange(0, 3).Draw(t, "hk") == 0 {
		return rapid.StringN(0, 12, 40).Draw(t, "rs")
	}
	return rapid.SampledFrom(hostileStrings).Draw(t, "hs")
}

// mutateFiles takes the files of a valid generated package and applies 1-4 hostile edits.
func mutateFiles(t *rapid.T, files map[string][]byte) map[string]string {
	out := map[string]string{}
	var names []string
	for k, v := range files {
		out[k] = string(v)
		names = append(names, k)
	}
	names = sortedStrings(names)
	n := rapid.IntRange(1, 4).Draw(t, "nedits")
	for i := 0; i < n; i++ {
		switch rapid.IntRange(0, 9).Draw(t, "edit") {
		case 0: // replace the value of some annotation / field line
			f := rapid.SampledFrom(names).Draw(t, "file")
			lines := strings.Split(out[f], "\n")
			li := rapid.IntRange(0, len(lines)-1).Draw(t, "line")
			if idx := strings.Index(lines[li], ":"); idx >= 0 {
				lines[li] = lines[li][:idx+1] + " " + genHostile(t)
			} else {
				lines[li] = genHostile(t)
			}
			out[f] = strings.Join(lines, "\n")
		case 1: // hostile control annotation on an object
			f := rapid.SampledFrom(names).Draw(t, "file")
			ann := rapid.SampledFrom([]string{"package-operator.run/condition-map", "package-operator.run/phase", "package-operator.run/condition", "package-operator.run/collision-protection"}).Draw(t, "ann")
			out[f] = strings.Replace(out[f], "  annotations:\n", "  annotations:\n    "+ann+": "+fmt.Sprintf("%q", genHostile(t))+"\n", 1)
		case 2: // add a file with odd name / content
			name := rapid.SampledFrom([]string{"x.yaml", "a/../b.yaml", ".hidden.yaml", "_x.yaml", "x.yaml.gotmpl", "_helpers.gotmpl", "manifest.yml", "manifest.lock.yaml", "components/a/manifest.yaml", "components/a/x.yaml", "README.md", "x.YAML", "dir/"}).Draw(t, "newname")
			out[name] = rapid.SampledFrom([]string{"", "a: b", "- 1\n- 2", "apiVersion: v1\nkind: ConfigMap\nmetadata:\n  name: z\n  annotations:\n    package-operator.run/phase: ph0\n", "{{ define \"hlp.name\" }}dup{{ end }}", "{{ range $i := until 3 }}---\na: {{ $i }}\n{{ end }}", "kind: PackageManifest\napiVersion: manifests.package-operator.run/v1alpha1\nmetadata:\n  name: c\nspec:\n  scopes: [Namespaced]\n  phases: [{name: p}]\n", "\x00\x01", "---\n---\n"}).Draw(t, "newcontent")
		case 3: // delete a file
			f := rapid.SampledFrom(names).Draw(t, "file")
			delete(out, f)
		case 4: // truncate a file
			f := rapid.SampledFrom(names).Draw(t, "file")
			if len(out[f]) > 0 {
				out[f] = out[f][:rapid.IntRange(0, len(out[f])-1).Draw(t, "cut")]
			}
		case 5: // duplicate a document
			f := rapid.SampledFrom(names).Draw(t, "file")
			out[f] = out[f] + "\n---\n" + out[f]
		case 6: // manifest: hostile spec fragment
			frag := rapid.SampledFrom([]string{
				"  availabilityProbes:\n  - probes: []\n    selector: {}\n",
				"  availabilityProbes:\n  - probes:\n    - cel:\n        rule: \"self.x +\"\n        message: m\n    selector:\n      kind: {group: '', kind: ConfigMap}\n",
				"  images:\n  - name: ''\n    image: ''\n",
				"  components: {}\n",
				"  constraints:\n  - platformVersion:\n      name: Kubernetes\n      range: \"not a range\"\n",
				"  filter:\n    conditions:\n    - name: 'bad name'\n      expression: 'true'\n",
				"  filter:\n    conditions:\n    - name: c9\n      expression: '1 + 1'\n",
				"  filter:\n    conditions:\n    - name: c9\n      expression: 'config.label'\n    paths:\n    - glob: 'a/**'\n      expression: 'cond.c9'\n",
				"  filter:\n    paths:\n    - glob: '**'\n      expression: 'config.label'\n",
				"  filter:\n    paths:\n    - glob: 'a/**'\n      expression: 'environment.kubernetes'\n",
				"  filter:\n    paths:\n    - glob: '[['\n      expression: 'false'\n",
				"  config:\n    openAPIV3Schema:\n      type: object\n      properties:\n        x:\n          type: nosuchtype\n",
				"  dependencies:\n  - image:\n      name: x\n      package: p\n      range: '>1'\n",
			}).Draw(t, "frag")
			if m, ok := out["manifest.yaml"]; ok {
				out["manifest.yaml"] = strings.Replace(m, "spec:\n", "spec:\n"+frag, 1)
			}
		case 7: // test template with hostile config
			if m, ok := out["manifest.yaml"]; ok {
				out["manifest.yaml"] = strings.Replace(m, "        label: testlabel\n", "        label: "+fmt.Sprintf("%q", genHostile(t))+"\n        extra: [1, {a: b}]\n", 1)
			}
		case 8: // template body replaced by a hostile template
			for _, f := range names {
				if strings.HasSuffix(f, ".gotmpl") {
					out[f] = out[f] + "\n# " + rapid.SampledFrom([]string{"{{ fail \"x\" }}",
						"{{ define \"rec.self\" }}{{ include \"rec.self\" . }}{{ end }}{{ include \"rec.self\" . }}",
						"{{ define \"rec.a\" }}{{ include \"rec.b\" . }}{{ end }}{{ define \"rec.b\" }}{{ include \"rec.a\" . }}{{ end }}{{ include \"rec.a\" . }}",
						"{{ define \"rec.walk\" }}{{ if . }}{{ include \"rec.walk\" false }}{{ include \"rec.walk\" . }}{{ end }}{{ end }}{{ include \"rec.walk\" true }}",
						"{{ define \"rec.t\" }}{{ template \"rec.t\" . }}{{ end }}{{ template \"rec.t\" . }}",
						"{{ define \"rec.two\" }}{{ if . }}{{ include \"rec.leaf\" 1 }}{{ include \"rec.two\" . }}{{ end }}{{ end }}{{ define \"rec.leaf\" }}x{{ end }}{{ include \"rec.two\" true }}", "{{ include \"hlp.name\" . | repeat 3 }}", "{{ getFile \"nope\" }}", "{{ (getFileGlob \"**\") | toJson }}", "{{ index .config \"label\" 3 }}", "{{ .images.nosuch }}", "{{ cel \"cond.nosuch\" }}", "{{ cel \"1 +\" }}", "{{ cel \"config.label\" }}", "{{ cel \"config\" }}", "{{ fromYAML \": :\" }}", "{{ b64decMap (dict \"a\" \"!!\") }}", "{{ regexMatch \"[\" \"a\" }}", "{{ splitList \"\" .config.label | first }}", "{{ dict 1 2 3 }}", "{{ semver \"x\" }}", "{{ toDecimal \"zz\" }}"}).Draw(t, "tmpl") + "\n"
					break
				}
			}
		default: // whole file replaced
			f := rapid.SampledFrom(names).Draw(t, "file")
			out[f] = genHostile(t)
		}
	}
	return out
}

func runC19Pipeline(c *c19FilesCase) (passedFirstLayer bool, err error) {
	// unbounded recursion must end in a Go fatal error quickly instead of eating a gigabyte of stack first
	maxStack := 256
	if v, e := strconv.Atoi(os.Getenv("VERIF_MAXSTACK_MB")); e == nil && v > 0 {
		maxStack = v
	}
	debug.SetMaxStack(maxStack << 20)
	MarkCurrent(c)
	ctx := context.Background()
	files := packages.Files{}
	for k, v := range c.Files {
		files[k] = []byte(v)
	}
	err = guard("package pipeline (load, validate, render)", func() {
		pkg, lerr := packages.DefaultStructuralLoader.LoadComponent(ctx, &packages.RawPackage{Files: files}, "")
		if lerr != nil {
			return
		}
		passedFirstLayer = true
		inst, rerr := packages.RenderPackageInstance(ctx, pkg, renderCtxFor(c.Ctx),
			append(packages.DefaultPackageValidators, packages.PackageScopeValidator(manifests.PackageManifestScopeNamespaced)),
			packages.DefaultObjectValidators)
		if rerr != nil {
			return
		}
		_ = packages.RenderObjectSetTemplateSpec(inst)
	})
	return passedFirstLayer, err
}

func TestC19Pipeline(t *testing.T) {
	st := NewStats("C19", "pipeline", "input = the file map of a valid generated package after 1-4 hostile edits (annotation values incl. condition-map / phase / CEL condition, odd file names, truncated / duplicated / deleted files, hostile manifest fragments, hostile templates calling the offered functions with bad arguments); target = structural load -> validators -> template rendering -> object rendering -> ObjectSet template; oracle = returns (value or error), never panics; non-trivial = the mutated package still passed structural loading")
	CheckOrReplay(t, st, func(data []byte) (any, error) {
		var c c19FilesCase
		if err := json.Unmarshal(data, &c); err != nil {
			return nil, err
		}
		_, err := runC19Pipeline(&c)
		return &c, err
	}, func(rt *rapid.T) {
		d := GenPkg(rt, 4)
		ctx := GenPkgCtx(rt)
		c := &c19FilesCase{Part: "pipeline", Files: mutateFiles(rt, d.Build(ctx)), Ctx: ctx}
		if rapid.IntRange(0, 19).Draw(rt, "cyclic") == 0 {
			// a template that stores a map inside itself and prints it
			for name := range c.Files {
				if strings.HasSuffix(name, ".gotmpl") && !strings.HasPrefix(filepath.Base(name), "_") {
					c.Files[name] += "\n# " + rapid.SampledFrom(cyclicTemplates).Draw(rt, "cyc") + "\n"
					c.DeathKey = "cyclic-template-value"
					break
				}
			}
		}
		if c.DeathKey != "" {
			// Go cannot recover from stack exhaustion: if this situation is a listed finding, the case is excluded by
			// construction (counted); otherwise it is run, and the driver reports the worker's death under this key
			if v := Violf("C19", "unbounded-recursion:"+c.DeathKey, "a template builds a map containing itself and prints it: fmt recurses until the stack is exhausted and the process dies"); IsKnown(v) {
				st.Known(v)
				return
			}
		}
		ok, err := runC19Pipeline(c)
		st.Case(c, ok)
		st.Report(rt, c, err)
	})
}

// ---- OCI import -----------------------------------------------------------------------------------------

type c19OCICase struct {
	Part    string   `json:"part"`
	Entries []ociEnt `json:"entries"`
	Corrupt int      `json:"corrupt"` // 0 none, 1 truncate, 2 flip bytes, 3 garbage layer
	CutAt   int      `json:"cutAt"`
	Raw     []byte   `json:"raw,omitempty"` // native fuzzing: the layer bytes as they are
}

type ociEnt struct {
	Name string `json:"name"`
	Data string `json:"data"`
	Dir  bool   `json:"dir,omitempty"`
}

func runC19OCI(c *c19OCICase) (int, error) {
	var buf bytes.Buffer
	tw := tar.NewWriter(&buf)
	for _, e := range c.Entries {
		hdr := &tar.Header{Name: e.Name, Mode: 0o644, Size: int64(len(e.Data)), Typeflag: tar.TypeReg}
		if e.Dir {
			hdr.Typeflag, hdr.Size = tar.TypeDir, 0
		}
		if tw.WriteHeader(hdr) != nil {
			continue
		}
		if !e.Dir {
			_, _ = tw.Write([]byte(e.Data))
		}
	}
	_ = tw.Close()
	raw := buf.Bytes()
	if c.Raw != nil {
		raw = c.Raw
	}
	switch c.Corrupt {
	case 1:
		if len(raw) > 0 {
			raw = raw[:mod(c.CutAt, len(raw))]
		}
	case 2:
		raw = append([]byte{}, raw...)
		for i := mod(c.CutAt, max1(len(raw))); i < len(raw) && i < mod(c.CutAt, max1(len(raw)))+8; i++ {
			raw[i] ^= 0xff
		}
	case 3:
		raw = []byte(strings.Repeat("garbage-not-a-tar", 1+mod(c.CutAt, 80)))
	}
	layer := static.NewLayer(raw, types.OCIUncompressedLayer)
	img, ierr := mutate.AppendLayers(empty.Image, layer)
	if ierr != nil {
		return 0, nil
	}
	nfiles := 0
	err := guard("FromOCI", func() {
		rp, e := packages.FromOCI(context.Background(), img)
		if e == nil && rp != nil {
			nfiles = len(rp.Files)
		}
	})
	return nfiles, err
}

func TestC19OCI(t *testing.T) {
	st := NewStats("C19", "oci", "input = an image with one layer built from generated tar entries (package/ prefix and others, '..' paths, directories, empty names, dotfiles) that is left intact, truncated at a generated offset, has 8 bytes flipped, or is not a tar at all; target = packages.FromOCI; oracle = returns files or an error, never panics; non-trivial = the layer was corrupted or at least one file was imported")
	CheckOrReplay(t, st, func(data []byte) (any, error) {
		var c c19OCICase
		if err := json.Unmarshal(data, &c); err != nil {
			return nil, err
		}
		_, err := runC19OCI(&c)
		return &c, err
	}, func(rt *rapid.T) {
		c := &c19OCICase{Part: "oci", Corrupt: rapid.SampledFrom([]int{0, 0, 1, 1, 2, 3}).Draw(rt, "corrupt"), CutAt: rapid.IntRange(0, 6000).Draw(rt, "cut")}
		n := rapid.IntRange(0, 5).Draw(rt, "n")
		for i := 0; i < n; i++ {
			c.Entries = append(c.Entries, ociEnt{
				Name: rapid.SampledFrom([]string{"package/manifest.yaml", "package/a/x.yaml", "package/", "package", "package/../x", "other/x.yaml", "", "/", "package/.git/x", "package/x.yaml", "./package/x.yaml", "package//x.yaml"}).Draw(rt, "name"),
				Data: rapid.SampledFrom([]string{"", "a: b", strings.Repeat("x", 700)}).Draw(rt, "data"),
				Dir:  rapid.IntRange(0, 5).Draw(rt, "dir") == 0,
			})
		}
		nf, err := runC19OCI(c)
		st.Case(c, c.Corrupt != 0 || nf > 0)
		st.Report(rt, c, err)
	})
}

// ---- configuration admission ---------------------------------------------------------------------------------

type c19CfgCase struct {
	Part   string         `json:"part"`
	Schema map[string]any `json:"schema"`
	Config map[string]any `json:"config"`
}

func genJSONValue(t *rapid.T, depth int) any {
	k := rapid.IntRange(0, 7).Draw(t, "jk")
	if depth <= 0 && k >= 6 {
		k = k % 6
	}
	switch k {
	case 0:
		return rapid.SampledFrom([]string{"", "a", "1", "true"}).Draw(t, "js")
	case 1:
		return float64(rapid.IntRange(-2, 3).Draw(t, "jn"))
	case 2:
		return rapid.Bool().Draw(t, "jb")
	case 3:
		return nil
	case 4:
		return 1.5
	case 5:
		return []any{}
	case 6:
		m := map[string]any{}
		for i := rapid.IntRange(0, 2).Draw(t, "jmn"); i > 0; i-- {
			m[rapid.SampledFrom([]string{"a", "b", "label", "x-y"}).Draw(t, "jmk")] = genJSONValue(t, depth-1)
		}
		return m
	default:
		var l []any
		for i := rapid.IntRange(0, 2).Draw(t, "jln"); i > 0; i-- {
			l = append(l, genJSONValue(t, depth-1))
		}
		return l
	}
}

func genSchema(t *rapid.T, depth int) map[string]any {
	s := map[string]any{}
	typ := rapid.SampledFrom([]string{"object", "object", "string", "integer", "number", "boolean", "array", "", "nosuch"}).Draw(t, "stype")
	if typ != "" {
		s["type"] = typ
	}
	if rapid.IntRange(0, 4).Draw(t, "sdefault") == 0 {
		s["default"] = genJSONValue(t, 1)
	}
	switch rapid.IntRange(0, 9).Draw(t, "sextra") {
	case 0:
		s["enum"] = []any{"a", 1.0, nil}
	case 1:
		s["pattern"] = rapid.SampledFrom([]string{"^a+$", "[", "(?!x)"}).Draw(t, "pattern")
	case 2:
		s["minimum"] = float64(rapid.IntRange(-1, 2).Draw(t, "min"))
	case 3:
		s["x-kubernetes-preserve-unknown-fields"] = true
	case 4:
		s["nullable"] = true
	case 5:
		s["format"] = rapid.SampledFrom([]string{"date-time", "nosuchformat", "int32"}).Draw(t, "format")
	case 6:
		s["maxLength"] = float64(rapid.IntRange(-1, 2).Draw(t, "maxlen"))
	}
	if depth > 0 && (typ == "object" || typ == "") {
		props := map[string]any{}
		for i := rapid.IntRange(0, 3).Draw(t, "nprops"); i > 0; i-- {
			props[rapid.SampledFrom([]string{"a", "b", "label", "x-y"}).Draw(t, "pname")] = genSchema(t, depth-1)
		}
		if len(props) > 0 {
			s["properties"] = props
		}
		if rapid.IntRange(0, 2).Draw(t, "req") == 0 {
			s["required"] = []any{rapid.SampledFrom([]string{"a", "label", "zz"}).Draw(t, "reqname")}
		}
		if rapid.IntRange(0, 4).Draw(t, "addl") == 0 {
			s["additionalProperties"] = genSchema(t, 0)
		}
	}
	if depth > 0 && typ == "array" {
		s["items"] = genSchema(t, depth-1)
	}
	return s
}

func runC19Cfg(c *c19CfgCase) (bool, error) {
	b, _ := json.Marshal(c.Schema)
	var props apiextensionsv1.JSONSchemaProps
	if err := json.Unmarshal(b, &props); err != nil {
		return false, nil
	}
	m := &manifests.PackageManifest{}
	m.Name = "x"
	var iprops apiextensions.JSONSchemaProps
	if err := apiextensionsv1.Convert_v1_JSONSchemaProps_To_apiextensions_JSONSchemaProps(&props, &iprops, nil); err != nil {
		return false, nil
	}
	m.Spec.Config.OpenAPIV3Schema = &iprops
	cb, _ := json.Marshal(c.Config)
	m.Spec.Scopes = []manifests.PackageManifestScope{manifests.PackageManifestScopeNamespaced}
	m.Spec.Phases = []manifests.PackageManifestPhase{{Name: "p"}}
	m.Test.Template = []manifests.PackageManifestTestCaseTemplate{{Name: "t", Context: manifests.TemplateContext{Config: &runtime.RawExtension{Raw: cb}}}}
	admitted := false
	err := guard("configuration admission", func() {
		cfg := deepCopyAny(c.Config).(map[string]any)
		errs, e := packages.AdmitPackageConfiguration(context.Background(), cfg, m, field.NewPath("spec", "config"))
		admitted = e == nil && len(errs) == 0
		_, _ = packages.ValidatePackageManifest(context.Background(), m)
	})
	return admitted, err
}

func deepCopyAny(v any) any {
	b, _ := json.Marshal(v)
	var out any
	_ = json.Unmarshal(b, &out)
	if out == nil {
		return map[string]any{}
	}
	return out
}

func TestC19Config(t *testing.T) {
	st := NewStats("C19", "config", "input = generated OpenAPI v3 schema (nested objects/arrays, defaults of the wrong type, bad patterns, unknown types/formats, required names without property, additionalProperties) x generated configuration value tree; target = AdmitPackageConfiguration (prune, default, validate) and ValidatePackageManifest; oracle = never panics; non-trivial = the configuration was admitted")
	CheckOrReplay(t, st, func(data []byte) (any, error) {
		var c c19CfgCase
		if err := json.Unmarshal(data, &c); err != nil {
			return nil, err
		}
		_, err := runC19Cfg(&c)
		return &c, err
	}, func(rt *rapid.T) {
		cfg, _ := genJSONValue(rt, 2).(map[string]any)
		if cfg == nil {
			cfg = map[string]any{"label": genJSONValue(rt, 1)}
		}
		c := &c19CfgCase{Part: "config", Schema: genSchema(rt, 2), Config: cfg}
		ok, err := runC19Cfg(c)
		st.Case(c, ok)
		st.Report(rt, c, err)
	})
}

// ---- CLI: validate and tree on package folders -------------------------------------------------------------------

func TestC19CLI(t *testing.T) {
	st := NewStats("C19", "cli", "input = the same mutated package file maps written to a folder; target = internal/cmd Validate.ValidatePackage and Tree.RenderPackage (kubectl-package validate / tree); oracle = return or error, never panic; non-trivial = validation got past loading (any outcome other than a load error)")
	dir, _ := os.MkdirTemp("", "verif-c19-cli")
	defer os.RemoveAll(dir)
	run := func(c *c19FilesCase) (bool, error) {
		root := filepath.Join(dir, Fingerprint(c))
		_ = os.MkdirAll(root, 0o755)
		defer os.RemoveAll(root)
		for name, content := range c.Files {
			if name == "" || strings.Contains(name, "..") || strings.HasSuffix(name, "/") || strings.ContainsRune(name, 0) {
				continue
			}
			p := filepath.Join(root, name)
			_ = os.MkdirAll(filepath.Dir(p), 0o755)
			_ = os.WriteFile(p, []byte(content), 0o644)
		}
		past := false
		err := guard("kubectl-package validate/tree", func() {
			scheme, _ := internalcmd.NewScheme()
			v := internalcmd.NewValidate(scheme)
			verr := v.ValidatePackage(context.Background(), internalcmd.WithPath(root))
			past = verr == nil || !strings.Contains(verr.Error(), "manifest")
			tr := internalcmd.NewTree(scheme)
			_, _ = tr.RenderPackage(context.Background(), root)
			_, _ = tr.RenderPackage(context.Background(), root, internalcmd.WithClusterScope(true))
		})
		return past, err
	}
	CheckOrReplay(t, st, func(data []byte) (any, error) {
		var c c19FilesCase
		if err := json.Unmarshal(data, &c); err != nil {
			return nil, err
		}
		_, err := run(&c)
		return &c, err
	}, func(rt *rapid.T) {
		d := GenPkg(rt, 3)
		ctx := GenPkgCtx(rt)
		c := &c19FilesCase{Part: "cli", Files: mutateFiles(rt, d.Build(ctx)), Ctx: ctx}
		ok, err := run(c)
		st.Case(c, ok)
		st.Report(rt, c, err)
	})
}
