package checks

import (
	"testing"

	"pgregory.net/rapid"

	"package-operator.run/verifharness/engine"
)

func genC03(t *rapid.T) *Scenario {
	sc := &Scenario{Prop: "C03"}
	set := GenSet(t, SetGenOpts{AllowClass: true})
	set.Cluster = rapid.IntRange(0, 5).Draw(t, "cluster") == 0
	sc.Steps = append(sc.Steps, Step{Op: "createSet", Set: &set})
	n := rapid.IntRange(4, 30).Draw(t, "nsteps")
	// a second revision of the same set (other content variants) makes passes that change existing objects
	if rapid.IntRange(0, 2).Draw(t, "second") == 0 {
		s2 := set
		s2.Phases = nil
		for _, ph := range set.Phases {
			p2 := ph
			p2.Objs = nil
			for _, o := range ph.Objs {
				o.Variant = o.Variant + 1
				p2.Objs = append(p2.Objs, o)
			}
			s2.Phases = append(s2.Phases, p2)
		}
		s2.Previous = []int{0}
		defer func() {
			at := rapid.IntRange(1, len(sc.Steps)).Draw(t, "secondat")
			steps := append([]Step{}, sc.Steps[:at]...)
			steps = append(steps, Step{Op: "createSet", Set: &s2})
			sc.Steps = append(steps, sc.Steps[at:]...)
		}()
	}
	ctrls := []string{engine.CtrlObjectSet, engine.CtrlObjectSet, engine.CtrlObjectSetPhase}
	if set.Cluster {
		ctrls = []string{engine.CtrlClusterObjectSet, engine.CtrlClusterObjectSet, engine.CtrlClusterObjectSetPhase}
	}
	for i := 0; i < n; i++ {
		switch rapid.IntRange(0, 10).Draw(t, "kind") {
		case 10:
			// pause / unpause: the only user action that moves the generation of an existing ObjectSetPhase
			if rapid.Bool().Draw(t, "pause") {
				sc.Steps = append(sc.Steps, Step{Op: "pauseSet", I: 0})
			} else {
				sc.Steps = append(sc.Steps, Step{Op: "unpauseSet", I: 0})
			}
		case 0, 1, 2, 3, 4:
			sc.Steps = append(sc.Steps, GenReconcile(t, ctrls))
		case 5, 6:
			sc.Steps = append(sc.Steps, Step{Op: "widget", I: rapid.IntRange(0, 2).Draw(t, "w"), J: rapid.IntRange(0, len(WidgetStates)-1).Draw(t, "state")})
		case 7:
			sc.Steps = append(sc.Steps, Step{Op: "tpReady", I: rapid.IntRange(0, 3).Draw(t, "cm"), On: rapid.Bool().Draw(t, "on")})
		case 8:
			if rapid.Bool().Draw(t, "editordelete") {
				sc.Steps = append(sc.Steps, Step{Op: "tpEdit", I: rapid.IntRange(0, 6).Draw(t, "obj")})
			} else {
				sc.Steps = append(sc.Steps, Step{Op: "tpDelete", I: rapid.IntRange(0, 6).Draw(t, "obj")})
			}
		case 9:
			sc.Steps = append(sc.Steps, Step{Op: "quiesce"})
		}
	}
	return sc
}

func TestC03(t *testing.T) {
	st := NewStats("C03", "engine", "scenario = one ObjectSet (1-4 phases, local/delegated, canned probes) + interleaved reconciles, workload status changes, third-party deletes; non-trivial = scenario containing a pass of a >=2-phase set in which a non-last phase fails its gate")
	run := func(sc *Scenario) (*Runner, error) {
		m := &C03Monitor{}
		r := NewRunner(sc, m)
		err := r.Run()
		st.Count("passes", int64(len(r.W.Passes)))
		st.Count("api_calls", int64(len(r.W.Store.Trace)))
		st.Count("monitored_passes", int64(m.Passes))
		st.Count("nontrivial_passes", int64(m.NontrivialPasses))
		return r, err
	}
	CheckOrReplay(t, st, func(data []byte) (any, error) {
		return ReplayScenario(data, func(sc *Scenario) *Runner { return NewRunner(sc, &C03Monitor{}) })
	}, func(rt *rapid.T) {
		sc := genC03(rt)
		r, err := run(sc)
		st.Case(sc, r.Labels["c03-nonlast-phase-fails"], r.LabelList()...)
		st.Report(rt, sc, err)
	})
}
