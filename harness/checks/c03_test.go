package checks

import (
	"testing"

	"pgregory.net/rapid"

	"package-operator.run/verifharness/engine"
)

func genC03(t *rapid.T) *Scenario {
	sc := &Scenario{Prop: "C03"}
	set := GenSet(t, SetGenOpts{AllowClass: true})
	set.Cluster = rapid.IntRange(0, 5).Draw(t, "cluster") == 0
	sc.Steps = append(sc.Steps, Step{Op: "createSet", Set: &set})
	n := rapid.IntRange(4, 30).Draw(t, "nsteps")
	ctrls := []string{engine.CtrlObjectSet, engine.CtrlObjectSet, engine.CtrlObjectSetPhase}
	if set.Cluster {
		ctrls = []string{engine.CtrlClusterObjectSet, engine.CtrlClusterObjectSet, engine.CtrlClusterObjectSetPhase}
	}
	for i := 0; i < n; i++ {
		switch rapid.IntRange(0, 9).Draw(t, "kind") {
		case 0, 1, 2, 3, 4:
			sc.Steps = append(sc.Steps, GenReconcile(t, ctrls))
		case 5, 6:
			sc.Steps = append(sc.Steps, Step{Op: "widget", I: rapid.IntRange(0, 2).Draw(t, "w"), J: rapid.IntRange(0, len(WidgetStates)-1).Draw(t, "state")})
		case 7:
			sc.Steps = append(sc.Steps, Step{Op: "tpReady", I: rapid.IntRange(0, 3).Draw(t, "cm"), On: rapid.Bool().Draw(t, "on")})
		case 8:
			sc.Steps = append(sc.Steps, Step{Op: "tpDelete", I: rapid.IntRange(0, 6).Draw(t, "obj")})
		case 9:
			sc.Steps = append(sc.Steps, Step{Op: "quiesce"})
		}
	}
	return sc
}

func TestC03(t *testing.T) {
	st := NewStats("C03", "engine", "scenario = one ObjectSet (1-4 phases, local/delegated, canned probes) + interleaved reconciles, workload status changes, third-party deletes; non-trivial = scenario containing a pass of a >=2-phase set in which a non-last phase fails its gate")
	run := func(sc *Scenario) (*Runner, error) {
		m := &C03Monitor{}
		r := NewRunner(sc, m)
		err := r.Run()
		st.Count("passes", int64(len(r.W.Passes)))
		st.Count("api_calls", int64(len(r.W.Store.Trace)))
		st.Count("monitored_passes", int64(m.Passes))
		st.Count("nontrivial_passes", int64(m.NontrivialPasses))
		return r, err
	}
	CheckOrReplay(t, st, func(data []byte) (any, error) {
		return ReplayScenario(data, func(sc *Scenario) *Runner { return NewRunner(sc, &C03Monitor{}) })
	}, func(rt *rapid.T) {
		sc := genC03(rt)
		r, err := run(sc)
		st.Case(sc, r.Labels["c03-nonlast-phase-fails"], r.LabelList()...)
		st.Report(rt, sc, err)
	})
}
