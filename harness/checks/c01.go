package checks

import (
	"encoding/json"
	"os"

	"package-operator.run/internal/constants"

	"package-operator.run/verifharness/engine"
	"package-operator.run/verifharness/kubesim"
	"package-operator.run/verifharness/refmodel"
)

// OwnersOf returns the owner entries of an object under the owner strategy of the controller.
func OwnersOf(obj map[string]any, annotationStrategy bool) []refmodel.ObjRef {
	var out []refmodel.ObjRef
	if annotationStrategy {
		raw := kubesim.AnnotationsOf(obj)[constants.OwnerStrategyAnnotationKey]
		if raw == "" {
			return nil
		}
		var refs []struct {
			APIVersion string `json:"apiVersion"`
			Kind       string `json:"kind"`
			Name       string `json:"name"`
			UID        string `json:"uid"`
			Controller *bool  `json:"controller"`
		}
		if json.Unmarshal([]byte(raw), &refs) != nil {
			return nil
		}
		for _, r := range refs {
			out = append(out, refmodel.ObjRef{Group: engine.GroupOfAPIVersion(r.APIVersion), Kind: r.Kind, Name: r.Name, UID: r.UID, Controller: r.Controller != nil && *r.Controller})
		}
		return out
	}
	for _, r := range engine.OwnerRefs(obj) {
		out = append(out, refmodel.ObjRef{Group: engine.GroupOfAPIVersion(r.APIVersion), Kind: r.Kind, Name: r.Name, UID: r.UID, Controller: r.Controller})
	}
	return out
}

// OwnerIDOf builds the identity of a PKO owner object.
func OwnerIDOf(owner map[string]any) refmodel.OwnerID {
	g := engine.GVKOf(owner)
	return refmodel.OwnerID{Group: g.Group, Kind: g.Kind, Name: kubesim.MetaString(owner, "name"), UID: engine.UID(owner)}
}

// ControlledByID reports whether the object's controller entry is the given owner.
func ControlledByID(obj map[string]any, id refmodel.OwnerID, annotationStrategy bool) bool {
	for _, r := range OwnersOf(obj, annotationStrategy) {
		if r.Controller && r.Group == id.Group && r.Kind == id.Kind && r.Name == id.Name && r.UID == id.UID {
			return true
		}
	}
	return false
}

// PreviousOf resolves the declared previous revisions of an owner against the store (state at pass start
// equals state now for ObjectSets' identity; remote phases are read from their stored status).
func PreviousOf(store *kubesim.Store, owner map[string]any, at func(k kubesim.Key) map[string]any) []refmodel.PrevSet {
	kind := "ObjectSet"
	switch asStr(owner["kind"]) {
	case "ClusterObjectSet", "ClusterObjectSetPhase":
		kind = "ClusterObjectSet"
	}
	ns := kubesim.MetaString(owner, "namespace")
	var out []refmodel.PrevSet
	for _, p := range asList(asMap(owner["spec"])["previous"]) {
		name := asStr(asMap(p)["name"])
		k := kubesim.Key{Group: engine.PKOGroup, Kind: kind, Namespace: ns, Name: name}
		ps := refmodel.PrevSet{ID: refmodel.OwnerID{Group: engine.PKOGroup, Kind: kind, Name: name}}
		if o := at(k); o != nil {
			ps.Exists = true
			ps.ID.UID = engine.UID(o)
			for _, rp := range asList(asMap(o["status"])["remotePhases"]) {
				ps.RemotePhases = append(ps.RemotePhases, refmodel.RemotePhase{Name: asStr(asMap(rp)["name"]), UID: asStr(asMap(rp)["uid"])})
			}
		}
		out = append(out, ps)
	}
	return out
}

// AdoptInputFor assembles the decision input for one observed object.
func AdoptInputFor(r *Runner, pv *PassView, obj map[string]any, entry map[string]any, annotationStrategy bool) refmodel.AdoptInput {
	in := refmodel.AdoptInput{
		ObjOwners:     OwnersOf(obj, annotationStrategy),
		Labels:        kubesim.LabelsOf(obj),
		Owner:         OwnerIDOf(pv.Owner),
		OwnerRevision: OwnerRevisionInPass(pv),
		CP:            asStr(entry["collisionProtection"]),
		Force:         os.Getenv(constants.ForceAdoptionEnvironmentVariable) != "",
	}
	if raw, ok := asMap(asMap(obj["metadata"])["annotations"])["package-operator.run/revision"]; ok {
		s := asStr(raw)
		in.RevAnnotation = &s
	}
	// previous sets as the pass looked them up (PKO reads them through the client at pass start);
	// ObjectSets' uid and remotePhases can only change through PKO's own status writes of *other* passes,
	// so the store state at the time of the pass's first call is what the pass saw.
	in.Previous = PreviousOf(r.W.Store, pv.Owner, func(k kubesim.Key) map[string]any {
		if o, ok := pv.Observed[k]; ok && o != nil {
			return o
		}
		return r.StateAt(k, pv.P.FirstSeq)
	})
	// "... or one of its delegated phases": what counts is which ObjectSetPhase objects a previous revision controls, not
	// only what its status says. A live phase object controlled by a declared previous revision is added when that revision
	// has completed a pass without error since the phase object was created (so its status had the chance to name it - a
	// status still carrying the uid of a deleted namesake is PKO's own stale bookkeeping).
	for i := range in.Previous {
		ps := &in.Previous[i]
		if !ps.Exists {
			continue
		}
		phaseKind := "ObjectSetPhase"
		if ps.ID.Kind == "ClusterObjectSet" {
			phaseKind = "ClusterObjectSetPhase"
		}
		for _, pk := range r.KeysAt(engine.PKOGroup, phaseKind, pv.P.FirstSeq) {
			po := r.StateAt(pk, pv.P.FirstSeq)
			cr, ok := engine.ControllerRef(po)
			if po == nil || !ok || cr.UID != ps.ID.UID {
				continue
			}
			listed := false
			for _, rp := range ps.RemotePhases {
				if rp.UID == engine.UID(po) {
					listed = true
				}
			}
			if listed {
				continue
			}
			created := -1
			for j, c := range r.W.Store.Trace {
				if j >= pv.P.FirstSeq {
					break
				}
				if c.Key == pk && c.Verb == "create" && c.Post != nil && engine.UID(c.Post) == engine.UID(po) {
					created = j
				}
			}
			for _, p2 := range r.W.Passes {
				if created >= 0 && isSetController(p2.Controller) && p2.Req.Name == ps.ID.Name && p2.Req.Namespace == kubesim.MetaString(pv.Owner, "namespace") &&
					p2.FirstSeq > created && p2.LastSeq <= pv.P.FirstSeq && p2.Err == "" && !p2.Crashed {
					ps.RemotePhases = append(ps.RemotePhases, refmodel.RemotePhase{Name: pk.Name, UID: engine.UID(po)})
					r.Labels["c01-restored-phase-object-of-previous-revision"] = true
					break
				}
			}
		}
	}
	return in
}

// StateAt reconstructs the stored state of key just before trace index idx.
func (r *Runner) StateAt(k kubesim.Key, idx int) map[string]any {
	tr := r.W.Store.Trace
	if idx > len(tr) {
		idx = len(tr)
	}
	for i := idx - 1; i >= 0; i-- {
		c := tr[i]
		if c.Key == k && c.IsWrite() && !c.DryRun {
			return c.Post
		}
	}
	return nil
}

// C01Monitor: collision protection.
type C01Monitor struct {
	Decisions map[string]int
}

func isPhaseController(c string) bool {
	return c == engine.CtrlObjectSetPhase || c == engine.CtrlClusterObjectSetPhase || c == engine.CtrlRemotePhase
}

func isSetController(c string) bool {
	return c == engine.CtrlObjectSet || c == engine.CtrlClusterObjectSet
}

func (m *C01Monitor) AfterPass(r *Runner, pv *PassView) error {
	if !isSetController(pv.P.Controller) && !isPhaseController(pv.P.Controller) {
		return nil
	}
	if pv.Owner == nil || pv.P.Crashed {
		return nil
	}
	if OwnerArchived(pv.Owner) || OwnerDeleting(pv.Owner) {
		return nil // teardown is C04/C05
	}
	if isPhaseController(pv.P.Controller) {
		cls := kubesim.LabelsOf(pv.Owner)["package-operator.run/phase-class"]
		want := engine.ClassDefault
		if pv.P.Controller == engine.CtrlRemotePhase {
			want = engine.ClassRemote
		}
		if cls != want {
			return nil
		}
	}
	if m.Decisions == nil {
		m.Decisions = map[string]int{}
	}
	annot := pv.P.Controller == engine.CtrlRemotePhase
	ownerID := OwnerIDOf(pv.Owner)
	paused := OwnerPaused(pv.Owner)
	phases := OwnerPhases(r.W.Store, pv.Owner)
	var refusedSeen, refusedNeedsCondition bool
	for _, ph := range phases {
		if ph.Class != "" && isSetController(pv.P.Controller) {
			continue // delegated: decided in the phase controller's passes
		}
		for oi, k := range ph.Keys {
			// the state the pass read for this key, before any write of its own
			var read map[string]any
			var readIdx = -1
			for i, c := range pv.Calls {
				if c.Actor == "pko" && c.Key == k && c.Verb == "get" && c.Resp != nil {
					read = c.Resp
					readIdx = i
					break
				}
				if c.Actor == "pko" && c.Key == k && c.IsWrite() && !c.DryRun {
					break
				}
			}
			if read == nil {
				continue
			}
			if ControlledByID(read, ownerID, annot) {
				continue
			}
			in := AdoptInputFor(r, pv, read, ph.Objs[oi], annot)
			dec := refmodel.Decide(in)
			m.Decisions[dec]++
			r.Labels["c01-observed-foreign"] = true
			r.Labels["c01-"+dec] = true
			var writes []*kubesim.Call
			var writeErr bool
			thirdPartyTouched := false
			for _, c := range pv.Calls[readIdx+1:] {
				if c.Key != k || !c.IsWrite() || c.DryRun {
					continue
				}
				if c.Actor != "pko" {
					thirdPartyTouched = true
					continue
				}
				writes = append(writes, c)
				if c.Err != "" {
					writeErr = true
				}
			}
			switch dec {
			case refmodel.Refuse, refmodel.LeaveNewer, refmodel.ParseError:
				for _, wcall := range writes {
					if wcall.Changed() || wcall.Err == "" {
						return Violf("C01", "write-on-unadoptable-object",
							"pass %d of %s %s: object %s (owners=%v rev=%v labels=%v) must not be adopted (decision %s, cp=%q, ownerRev=%d, previous=%v) but PKO issued %s (changed=%v)",
							pv.P.ID, ownerID.Kind, ownerID.Name, k, in.ObjOwners, strOrNil(in.RevAnnotation), in.Labels, dec, in.CP, in.OwnerRevision, in.Previous, wcall.Verb, wcall.Changed())
					}
				}
				if !thirdPartyTouched {
					now := r.W.Store.PeekNoCopy(k)
					if now == nil || engine.RVOf(now) != engine.RVOf(read) {
						return Violf("C01", "unadoptable-object-changed",
							"pass %d of %s: object %s must be left untouched (decision %s) but its stored version changed from rv %s", pv.P.ID, ownerID.Name, k, dec, engine.RVOf(read))
					}
				}
				if dec == refmodel.Refuse {
					refusedSeen = true
					if !paused {
						refusedNeedsCondition = true
					}
				}
			case refmodel.Adopt:
				if paused || writeErr || thirdPartyTouched {
					continue
				}
				now := r.W.Store.PeekNoCopy(k)
				ok := now != nil && ControlledByID(now, ownerID, annot)
				if ok {
					rv, numeric, _ := engine.RevisionOf(now)
					ok = numeric && rv == in.OwnerRevision
				}
				if !ok {
					// the pass may have been cut short by an error on this very object (e.g. the server rejected the patch)
					if pv.P.Err != "" && len(writes) > 0 {
						continue
					}
					return Violf("C01", "permitted-adoption-not-carried-out",
						"pass %d of %s %s: object %s (owners=%v rev=%v) may be adopted (cp=%q ownerRev=%d previous=%v force=%v) but after the pass it is not controlled by the owner with revision %d (pass err=%q, writes=%d)",
						pv.P.ID, ownerID.Kind, ownerID.Name, k, in.ObjOwners, strOrNil(in.RevAnnotation), in.CP, in.OwnerRevision, in.Previous, in.Force, in.OwnerRevision, trunc(pv.P.Err, 100), len(writes))
				}
			}
		}
	}
	_ = refusedSeen
	if refusedNeedsCondition {
		// the refusal must be reported on the owner: Available=False / CollisionDetected (persisted by this pass)
		ok := false
		for _, sw := range pv.StatusWrites {
			if c, has := engine.Conditions(asMap(sw.Body))["Available"]; has && c.Status == "False" && c.Reason == "CollisionDetected" {
				ok = true
			}
		}
		if !ok && !statusWriteFailed(pv) {
			return Violf("C01", "refusal-not-reported",
				"pass %d of %s %s refused an adoption but did not persist Available=False/CollisionDetected (pass err=%q)", pv.P.ID, ownerID.Kind, ownerID.Name, trunc(pv.P.Err, 120))
		}
	}
	return nil
}

func statusWriteFailed(pv *PassView) bool {
	for _, c := range pv.Calls {
		if (c.Verb == "update-status" || c.Verb == "patch-status") && c.Key == pv.OwnerKey && c.Err != "" {
			return true
		}
	}
	return false
}

func strOrNil(s *string) string {
	if s == nil {
		return "<absent>"
	}
	return "\"" + *s + "\""
}
