package checks

import (
	"context"
	"encoding/json"
	"fmt"
	"os"
	"strings"
	"testing"
	"text/template"

	"k8s.io/apimachinery/pkg/runtime"
	"pgregory.net/rapid"

	"package-operator.run/internal/apis/manifests"
	"package-operator.run/internal/packages"
	"package-operator.run/internal/transform"
	"package-operator.run/internal/utils"

	"package-operator.run/verifharness/kubesim"
)

type c13Case struct {
	Part string  `json:"part"`
	Desc PkgDesc `json:"desc"`
	Ctx  PkgCtx  `json:"ctx"`
	// GetFileOfRendered adds a template that reads the rendered output of another template through getFile.
	GetFileOfRendered bool `json:"getFileOfRendered,omitempty"`
}

func renderCtxFor(c PkgCtx) packages.PackageRenderContext {
	rc := packages.PackageRenderContext{
		Package: manifests.TemplateContextPackage{
			TemplateContextObjectMeta: manifests.TemplateContextObjectMeta{Name: c.PkgName, Namespace: c.PkgNS},
			Image:                     "quay.io/verif/pkg:v1",
		},
		Config:      map[string]any{"flag": c.Flag},
		Environment: manifests.PackageEnvironment{Kubernetes: manifests.PackageEnvironmentKubernetes{Version: c.KubeVersion}},
	}
	if c.HasLabel {
		rc.Config["label"] = c.Label
	}
	if c.OpenShift {
		rc.Environment.OpenShift = &manifests.PackageEnvironmentOpenShift{Version: "4.13.0"}
	}
	return rc
}

// renderOnce runs load -> validate -> render templates -> render objects -> ObjectSet template.
func renderOnce(files map[string][]byte, c PkgCtx) (spec map[string]any, hash string, err error) {
	ctx := context.Background()
	cp := packages.Files{}
	for k, v := range files {
		cp[k] = append([]byte{}, v...)
	}
	defer func() {
		if r := recover(); r != nil {
			err = Violf("C19", "panic-in-render", "rendering panicked: %v", r)
		}
	}()
	pkg, lerr := packages.DefaultStructuralLoader.LoadComponent(ctx, &packages.RawPackage{Files: cp}, "")
	if lerr != nil {
		return nil, "", lerr
	}
	inst, rerr := packages.RenderPackageInstance(ctx, pkg, renderCtxFor(c),
		append(packages.DefaultPackageValidators, packages.PackageScopeValidator(manifests.PackageManifestScopeNamespaced)),
		packages.DefaultObjectValidators)
	if rerr != nil {
		return nil, "", rerr
	}
	ts := packages.RenderObjectSetTemplateSpec(inst)
	hash = utils.ComputeFNV32Hash(ts, nil)
	spec, nerr := kubesim.Normalize(&ts)
	if nerr != nil {
		return nil, "", nerr
	}
	return spec, hash, nil
}

func runC13(c *c13Case) (labels []string, nontrivial bool, err error) {
	files := c.Desc.Build(c.Ctx)
	if c.GetFileOfRendered {
		// find a template file to read the rendered output of
		var target string
		for _, f := range c.Desc.Files {
			if f.Template {
				target = f.Path
				break
			}
		}
		if target != "" {
			labels = append(labels, "getfile-of-rendered-template")
			files["zz-reader.yaml.gotmpl"] = []byte("apiVersion: v1\nkind: ConfigMap\nmetadata:\n  name: reader\n  annotations:\n    package-operator.run/phase: " + c.Desc.Phases[0].Name + "\ndata:\n  copy: {{ getFile \"" + target + "\" | b64enc | quote }}\n")
		}
	}
	const K = 10
	var firstSpec map[string]any
	var firstHash, firstErr string
	for i := 0; i < K; i++ {
		spec, hash, rerr := renderOnce(files, c.Ctx)
		if v, ok := rerr.(*Violation); ok {
			return labels, false, v
		}
		es := ""
		if rerr != nil {
			es = "error"
		}
		if i == 0 {
			firstSpec, firstHash, firstErr = spec, hash, es
			if c.Desc.ExpectInvalid() {
				labels = append(labels, "inexact-phase-annotation")
				if rerr == nil {
					return labels, true, Violf("C13", "object-with-unknown-phase-accepted",
						"a package with an object whose phase annotation (written with surrounding whitespace) names no phase of the manifest passed validation; rendered phases: %s", trunc(mustJSON(spec["phases"]), 600))
				}
				return labels, true, nil
			}
			if rerr != nil && !c.GetFileOfRendered {
				return labels, false, fmt.Errorf("generated package does not render: %v", rerr)
			}
			continue
		}
		if es != firstErr {
			return labels, false, Violf("C13", "render-outcome-depends-on-iteration-order",
				"render %d of the same package ended with %q, render 0 with %q (error: %v)", i, es, firstErr, rerr)
		}
		if rerr != nil {
			continue
		}
		if hash != firstHash || !kubesim.JSONEqual(spec, firstSpec) {
			return labels, false, Violf("C13", "render-not-deterministic", "render %d of the same package differs from render 0 (hash %s vs %s)", i, hash, firstHash)
		}
	}
	if firstErr != "" || c.GetFileOfRendered {
		return labels, false, nil
	}
	// compare with R-render
	want := c.Desc.Expected(c.Ctx)
	wantN, _ := kubesim.Normalize(map[string]any{"phases": want})
	got := firstSpec["phases"]
	if got == nil {
		got = []any{}
	}
	wp := wantN["phases"]
	if wp == nil {
		wp = []any{}
	}
	if !kubesim.JSONEqual(got, wp) {
		gb, _ := json.Marshal(got)
		wb, _ := json.Marshal(wp)
		return labels, false, Violf("C13", "rendered-template-differs-from-reference", "rendered phases\n  %s\nexpected\n  %s", gb, wb)
	}
	// every sub-component renders to exactly its own objects, nothing of the root or of its siblings
	for i := 0; i < c.Desc.Components; i++ {
		name := ComponentName(i)
		labels = append(labels, "multi-component")
		cp := packages.Files{}
		for k, v := range files {
			cp[k] = append([]byte{}, v...)
		}
		pkg, lerr := packages.DefaultStructuralLoader.LoadComponent(context.Background(), &packages.RawPackage{Files: cp}, name)
		if lerr != nil {
			return labels, false, Violf("C13", "component-does-not-load", "component %s of a valid multi-component package does not load: %v", name, lerr)
		}
		inst, rerr := packages.RenderPackageInstance(context.Background(), pkg, renderCtxFor(c.Ctx),
			append(packages.DefaultPackageValidators, packages.PackageScopeValidator(manifests.PackageManifestScopeNamespaced)),
			packages.DefaultObjectValidators)
		if rerr != nil {
			return labels, false, Violf("C13", "component-does-not-render", "component %s does not render: %v", name, rerr)
		}
		ts := packages.RenderObjectSetTemplateSpec(inst)
		var got []string
		for _, ph := range ts.Phases {
			for _, o := range ph.Objects {
				got = append(got, ph.Name+"/"+o.Object.GetKind()+"/"+o.Object.GetName())
			}
		}
		if want := "cph/ConfigMap/in-" + name; len(got) != 1 || got[0] != want {
			return labels, false, Violf("C13", "component-objects-not-conserved", "component %s rendered objects %v, expected exactly [%s]", name, got, want)
		}
	}
	for _, f := range c.Desc.Files {
		if strings.HasPrefix(f.Path, "components") && len(f.Objs) > 0 {
			labels = append(labels, "root-file-named-like-components-folder")
		}
	}
	// non-trivial classification
	dirs := map[string]bool{}
	nfiles := 0
	filtered, helper := false, false
	total, kept := 0, 0
	for _, f := range c.Desc.Files {
		if len(f.Objs) > 0 {
			nfiles++
			d := ""
			if i := strings.LastIndex(f.Path, "/"); i >= 0 {
				d = f.Path[:i]
			}
			dirs[d] = true
		}
		for _, o := range f.Objs {
			total++
			if o.Tmpl == "helper" && f.Template {
				helper = true
			}
		}
	}
	for _, p := range want {
		kept += len(asList(asMap(p)["objects"]))
	}
	filtered = kept < total
	if filtered {
		labels = append(labels, "filtered-object")
	}
	if helper {
		labels = append(labels, "uses-helper")
	}
	if len(dirs) >= 2 {
		labels = append(labels, "multi-dir")
	}
	return labels, nfiles >= 2 && len(dirs) >= 2 && filtered && helper, nil
}

func TestC13(t *testing.T) {
	st := NewStats("C13", "render", "case = generated package (1-4 phases in shuffled manifest order, some with class; nested directories; multi-document YAML with empty documents; .gotmpl files using config, sprig functions and a helper define via include; named CEL conditions, per-object CEL annotations, conditional paths; collision-protection / condition-map / unrelated annotations) + generated context; each package is loaded, validated and rendered 10 times from fresh copies (Go randomises map iteration per range) and the ObjectSet template + FNV hash compared with each other and with R-render computed from the structured description; non-trivial = >=2 files in >=2 directories, >=1 filtered-out object and a template using the helper")
	CheckOrReplay(t, st, func(data []byte) (any, error) {
		var c c13Case
		if err := json.Unmarshal(data, &c); err != nil {
			return nil, err
		}
		_, _, err := runC13(&c)
		return &c, err
	}, func(rt *rapid.T) {
		c := &c13Case{Part: "render", Desc: GenPkg(rt, 6), Ctx: GenPkgCtx(rt)}
		c.GetFileOfRendered = rapid.IntRange(0, 9).Draw(rt, "getfile") == 0
		if !c.GetFileOfRendered && rapid.IntRange(0, 7).Draw(rt, "inexactphase") == 0 {
			// one object's phase annotation is written with surrounding whitespace (quoted, or as a YAML block scalar)
			var objs []*PkgObj
			for fi := range c.Desc.Files {
				for oi := range c.Desc.Files[fi].Objs {
					objs = append(objs, &c.Desc.Files[fi].Objs[oi])
				}
			}
			if len(objs) > 0 {
				objs[rapid.IntRange(0, len(objs)-1).Draw(rt, "which")].PhaseForm = rapid.SampledFrom([]string{"lead", "trail", "block"}).Draw(rt, "form")
			}
		}
		labels, nt, err := runC13(c)
		st.Case(c, nt, labels...)
		st.Report(rt, c, err)
	})
}

// nonHermetic lists sprig/template functions that reach clock, randomness, environment, network, host files or crypto key generation.
var nonHermetic = []string{
	"now", "date", "dateInZone", "date_in_zone", "dateModify", "date_modify", "mustDateModify", "must_date_modify", "ago", "toDate", "mustToDate", "unixEpoch", "htmlDate", "htmlDateInZone", "duration", "durationRound",
	"randAlphaNum", "randAlpha", "randAscii", "randNumeric", "randBytes", "randInt", "shuffle", "uuidv4",
	"env", "expandenv", "getHostByName",
	"genPrivateKey", "genCA", "genCAWithKey", "genSelfSignedCert", "genSelfSignedCertWithKey", "genSignedCert", "genSignedCertWithKey", "buildCustomCert", "derivePassword", "htpasswd", "bcrypt", "encryptAES", "decryptAES",
	"osBase", "osDir", "osClean", "osExt", "osIsAbs",
}

func TestC13Hermetic(t *testing.T) {
	if *flagReplay != "" {
		t.Skip()
	}
	st := NewStats("C13", "hermetic", "the template function map offered to package templates is enumerated: no function of sprig's clock/random/environment/network/crypto-generation/host-path set may be present; in addition every offered function is called from generated one-line templates with generated string/int arguments twice and under a changed process environment and the outputs compared; non-trivial = a call that rendered without error")
	tmpl := template.New("x")
	fm := transform.SprigFuncs(tmpl)
	for k, v := range transform.FileFuncs(map[string][]byte{"a.yaml": []byte("x")}) {
		fm[k] = v
	}
	st.Exhaustive = false
	bad := map[string]bool{}
	for _, n := range nonHermetic {
		bad[n] = true
	}
	for name := range fm {
		if bad[name] {
			st.Report(t, map[string]any{"part": "hermetic", "func": name}, Violf("C13", "non-hermetic-template-function:"+name, "template function %q is offered to package templates", name))
		}
	}
	var names []string
	for name := range fm {
		names = append(names, name)
	}
	rapid.Check(t, func(rt *rapid.T) {
		name := rapid.SampledFrom(sortedStrings(names)).Draw(rt, "fn")
		nargs := rapid.IntRange(0, 3).Draw(rt, "nargs")
		var args []string
		for i := 0; i < nargs; i++ {
			switch rapid.IntRange(0, 5).Draw(rt, "argkind") {
			case 4:
				args = append(args, `(dict "k1" "a" "k2" "b" "k3" "c" "k4" "d" "k5" "e" "k6" "f")`)
			case 5:
				args = append(args, ".config")
			case 0:
				args = append(args, fmt.Sprintf("%q", rapid.SampledFrom([]string{"abc", "a,b", "HOME", "PATH", "1.2.3", "x y", "", "[a-z]+", "https://h/p?q=1"}).Draw(rt, "s")))
			case 1:
				args = append(args, fmt.Sprint(rapid.IntRange(-2, 5).Draw(rt, "i")))
			case 2:
				args = append(args, ".config.label")
			default:
				args = append(args, `(list "b" "a")`)
			}
		}
		text := "{{ " + name + " " + strings.Join(args, " ") + " }}"
		run := func() (string, string) {
			tp := template.New("t").Option("missingkey=error")
			tp = tp.Funcs(transform.SprigFuncs(tp)).Funcs(transform.FileFuncs(map[string][]byte{"a.yaml": []byte("x")}))
			p, err := tp.Parse(text)
			if err != nil {
				return "", "parse"
			}
			var sb strings.Builder
			func() {
				defer func() {
					if r := recover(); r != nil {
						err = fmt.Errorf("panic: %v", r)
					}
				}()
				err = p.Execute(&sb, map[string]any{"config": map[string]any{"label": "alpha", "l2": "b", "l3": "c", "l4": "d", "l5": "e", "l6": "f"}})
			}()
			if err != nil {
				return "", "error"
			}
			return sb.String(), ""
		}
		o1, e1 := run()
		os.Setenv("HOME", "/somewhere/else")
		os.Setenv("VERIF_ENV_PROBE", "1")
		o2, e2 := run()
		for i := 0; i < 4 && o1 == o2 && e1 == e2; i++ {
			// map-order dependence shows up as a difference between repeated evaluations
			o2, e2 = run()
		}
		os.Unsetenv("VERIF_ENV_PROBE")
		c := map[string]any{"part": "hermetic", "template": text}
		var err error
		if o1 != o2 || e1 != e2 {
			err = Violf("C13", "template-function-not-pure:"+name, "template %s gave %q/%s and then %q/%s", text, o1, e1, o2, e2)
		}
		st.Case(c, e1 == "")
		st.Report(rt, c, err)
	})
}

func sortedStrings(s []string) []string {
	out := append([]string{}, s...)
	for i := range out {
		for j := i + 1; j < len(out); j++ {
			if out[j] < out[i] {
				out[i], out[j] = out[j], out[i]
			}
		}
	}
	return out
}

var _ = runtime.NewScheme

// ---- shared-context / iteration-order purity ------------------------------------------------------------------------

type c13CtxCase struct {
	Part  string            `json:"part"`
	Files map[string]string `json:"files"`
	Ctx   PkgCtx            `json:"ctx"`
}

const c13CtxManifest = `apiVersion: manifests.package-operator.run/v1alpha1
kind: PackageManifest
metadata:
  name: pkg-a
spec:
  scopes: [Namespaced]
  phases:
  - name: ph0
  config:
    openAPIV3Schema:
      type: object
      properties:
        label: {type: string}
        flag: {type: boolean}
`

func runC13Ctx(c *c13CtxCase) (rendered bool, err error) {
	var first map[string]any
	var firstHash string
	for i := 0; i < 8; i++ {
		files := map[string][]byte{}
		for k, v := range c.Files {
			files[k] = []byte(v)
		}
		spec, hash, rerr := renderOnce(files, c.Ctx)
		if rerr != nil {
			if _, isViol := rerr.(*Violation); isViol {
				return false, rerr
			}
			if i > 0 && first != nil {
				return true, Violf("C13", "render-not-deterministic", "render %d of the same package failed (%v) although render 0 succeeded", i, trunc(rerr.Error(), 300))
			}
			if i >= 3 {
				return false, nil
			}
			continue
		}
		if first == nil {
			if i > 0 {
				return true, Violf("C13", "render-not-deterministic", "render %d of the same package succeeded although earlier renders of it failed", i)
			}
			first, firstHash = spec, hash
			continue
		}
		if hash != firstHash || !kubesim.JSONEqual(first, spec) {
			return true, Violf("C13", "render-not-deterministic", "render %d of the same package differs from render 0 (hash %s vs %s): %s", i, hash, firstHash, firstDiff(first, spec))
		}
	}
	return first != nil, nil
}

func TestC13Context(t *testing.T) {
	st := NewStats("C13", "context", "packages of 2-4 template files whose templates read and write the shared template context and iterate over maps with the offered functions (set / unset / get / hasKey on .config and nested dicts, keys / values / pick / omit / merge / toJson of multi-entry maps, range over maps); the same file set is rendered 8 times from fresh copies; oracle = all renders agree (result and hash) and either all fail or all succeed; non-trivial = the package rendered")
	CheckOrReplay(t, st, func(data []byte) (any, error) {
		var c c13CtxCase
		if err := json.Unmarshal(data, &c); err != nil {
			return nil, err
		}
		_, err := runC13Ctx(&c)
		return &c, err
	}, func(rt *rapid.T) {
		c := &c13CtxCase{Part: "context", Files: map[string]string{"manifest.yaml": c13CtxManifest}, Ctx: PkgCtx{Label: "alpha", HasLabel: true, Flag: true, KubeVersion: "v1.27.0", PkgName: "inst", PkgNS: "ns-a"}}
		nf := rapid.IntRange(2, 4).Draw(rt, "nfiles")
		dictLit := `(dict "k1" "a" "k2" "b" "k3" "c" "k4" "d" "k5" "e" "k6" "f")`
		for i := 0; i < nf; i++ {
			var sb strings.Builder
			sb.WriteString(fmt.Sprintf("apiVersion: v1\nkind: ConfigMap\nmetadata:\n  name: cm-%d\n  annotations:\n    package-operator.run/phase: ph0\ndata:\n", i))
			n := rapid.IntRange(1, 4).Draw(rt, "nstmts")
			for j := 0; j < n; j++ {
				key := rapid.SampledFrom([]string{"leak", "label", "x"}).Draw(rt, "key")
				var expr string
				switch rapid.IntRange(0, 11).Draw(rt, "stmt") {
				case 0, 1:
					expr = fmt.Sprintf(`{{ $_ := set .config %q "v%d" }}w`, key, i)
				case 2:
					expr = fmt.Sprintf(`{{ $_ := unset .config %q }}u`, key)
				case 3, 4:
					expr = fmt.Sprintf(`{{ get .config %q | quote }}`, key)
				case 5:
					expr = fmt.Sprintf(`{{ hasKey .config %q | quote }}`, key)
				case 6:
					expr = `{{ keys ` + dictLit + ` | join "," | quote }}`
				case 7:
					expr = `{{ values ` + dictLit + ` | join "," | quote }}`
				case 8:
					expr = `{{ range $k, $v := ` + dictLit + ` }}{{ $k }}={{ $v }};{{ end }}`
				case 9:
					expr = `{{ pick ` + dictLit + ` "k1" "k5" "k3" | toJson | quote }}`
				case 10:
					expr = `{{ keys (merge (dict "z" 1 "y" 2 "x" 3) ` + dictLit + `) | join "," | quote }}`
				default:
					expr = fmt.Sprintf(`{{ $_ := set .package.metadata.labels %q "v" }}{{ .package.metadata.labels | toJson | quote }}`, key)
				}
				sb.WriteString(fmt.Sprintf("  f%d: %s\n", j, expr))
			}
			c.Files[fmt.Sprintf("%s.yaml.gotmpl", rapid.SampledFrom([]string{"a", "b", "c/d", "e-f", "g.h", "z"}).Draw(rt, "fname")+fmt.Sprint(i))] = sb.String()
		}
		ok, err := runC13Ctx(c)
		st.Case(c, ok)
		st.Report(rt, c, err)
	})
}
