package checks

import (
	"testing"

	"pgregory.net/rapid"

	"package-operator.run/verifharness/engine"
)

// genTeardownWorld: 1-2 ObjectSets rolled out (fully or partly), managed objects put into odd states
// (blocking finalizers, taken over, deleted), then deletion / archival with interleaved reconciles, GC,
// other revisions, faults and restarts. inject=true adds in-pass third-party actions right before PKO's writes.
func genTeardownWorld(t *rapid.T, prop string, opts SetGenOpts, inject bool) *Scenario {
	sc := &Scenario{Prop: prop}
	sc.GracefulWidgets = rapid.IntRange(0, 2).Draw(t, "graceful") == 0
	nsets := rapid.IntRange(1, 2).Draw(t, "nsets")
	for i := 0; i < nsets; i++ {
		set := GenSet(t, opts)
		if i > 0 && rapid.Bool().Draw(t, "chain") {
			set.Previous = []int{0}
		}
		set.Cluster = opts.AllowCluster && rapid.IntRange(0, 5).Draw(t, "cluster") == 0
		sc.Steps = append(sc.Steps, Step{Op: "createSet", Set: &set})
	}
	ctrls := []string{engine.CtrlObjectSet, engine.CtrlObjectSet, engine.CtrlObjectSetPhase, engine.CtrlRemotePhase, engine.CtrlClusterObjectSet, engine.CtrlClusterObjectSetPhase}
	if rapid.IntRange(0, 4).Draw(t, "rollout") > 0 {
		sc.Steps = append(sc.Steps, Step{Op: "quiesce"})
	} else {
		for i := rapid.IntRange(0, 5).Draw(t, "partial"); i > 0; i-- {
			sc.Steps = append(sc.Steps, GenReconcile(t, ctrls))
		}
	}
	if rapid.IntRange(0, 3).Draw(t, "regress") == 0 {
		// everything becomes ready, the sets roll out completely; then an early workload regresses and is reconciled a
		// few times, so the status the teardown starts from reports less than what the set controls
		for w := 0; w < 4; w++ {
			sc.Steps = append(sc.Steps, Step{Op: "widget", I: w, J: 1}, Step{Op: "tpReady", I: w, On: true})
		}
		sc.Steps = append(sc.Steps, Step{Op: "quiesce"})
		for i := rapid.IntRange(1, 2).Draw(t, "nregress"); i > 0; i-- {
			if rapid.Bool().Draw(t, "regressWidget") {
				sc.Steps = append(sc.Steps, Step{Op: "widget", I: rapid.IntRange(0, 2).Draw(t, "w"), J: rapid.SampledFrom([]int{0, 3}).Draw(t, "state")})
			} else {
				sc.Steps = append(sc.Steps, Step{Op: "tpReady", I: rapid.IntRange(0, 3).Draw(t, "cm"), On: false})
			}
		}
		for i := rapid.IntRange(1, 4).Draw(t, "afterRegress"); i > 0; i-- {
			sc.Steps = append(sc.Steps, GenReconcile(t, ctrls))
		}
	}
	disturb := func() {
		switch rapid.IntRange(0, 4).Draw(t, "disturb") {
		case 4:
			sc.Steps = append(sc.Steps, Step{Op: "tpDeleteSlice", I: rapid.IntRange(0, 3).Draw(t, "slice")})
		case 0:
			sc.Steps = append(sc.Steps, Step{Op: "tpFinalizer", I: genPoolIdx(t, opts.PoolSize)})
		case 1:
			sc.Steps = append(sc.Steps, Step{Op: "tpOwn", I: genPoolIdx(t, opts.PoolSize),
				J: rapid.SampledFrom([]int{0, 1, 2, 3, 4, 4, 4, 5, 6, 7, 8, 9, 10, 11, 11, 11, 12, 13}).Draw(t, "ownstate"), K: rapid.IntRange(0, len(RevStates)-2).Draw(t, "revstate")})
		case 2:
			sc.Steps = append(sc.Steps, Step{Op: "tpDelete", I: genPoolIdx(t, opts.PoolSize)})
		case 3:
			sc.Steps = append(sc.Steps, Step{Op: "tpUnfinalize", I: genPoolIdx(t, opts.PoolSize)})
		}
	}
	for i := rapid.IntRange(0, 3).Draw(t, "ndisturb"); i > 0; i-- {
		disturb()
	}
	rounds := rapid.IntRange(1, 3).Draw(t, "rounds")
	for rd := 0; rd < rounds; rd++ {
		if rapid.IntRange(0, 2).Draw(t, "trigger") == 0 {
			sc.Steps = append(sc.Steps, Step{Op: "archiveSet", I: rapid.IntRange(0, 1).Draw(t, "set")})
		} else {
			sc.Steps = append(sc.Steps, Step{Op: "deleteSet", I: rapid.IntRange(0, 1).Draw(t, "set"), On: rapid.IntRange(0, 5).Draw(t, "orphan") == 0})
		}
		n := rapid.IntRange(2, 9).Draw(t, "nsteps")
		for i := 0; i < n; i++ {
			switch rapid.IntRange(0, 11).Draw(t, "kind") {
			case 0, 1, 2, 3, 4, 5:
				if rapid.IntRange(0, 1).Draw(t, "withfault") == 0 {
					if inject {
						sc.Steps = append(sc.Steps, Step{Op: "inject", I: rapid.SampledFrom([]int{0, 0, 0, 1, 1, 2}).Draw(t, "n"), J: rapid.IntRange(0, len(InjectKinds)-1).Draw(t, "inj")})
					} else {
						if rapid.IntRange(0, 3).Draw(t, "ondryrun") == 0 {
							// the API server answers one of the pass's server-side dry runs with an error
							sc.Steps = append(sc.Steps, Step{Op: "faultDryRun", I: rapid.IntRange(0, 5).Draw(t, "ndry"), J: rapid.IntRange(0, 4).Draw(t, "dkind")})
							sc.Steps = append(sc.Steps, GenReconcile(t, ctrls))
							continue
						}
						// plain failure, lost response, crash before/after, or an API status answer (500, 429, 503, timeout)
						sc.Steps = append(sc.Steps, Step{Op: "fault", I: rapid.IntRange(0, 14).Draw(t, "ncall"), J: rapid.SampledFrom([]int{0, 1, 2, 3, 4, 4, 5, 6, 7}).Draw(t, "fkind")})
					}
				}
				sc.Steps = append(sc.Steps, GenReconcile(t, ctrls))
			case 6:
				if sc.GracefulWidgets && rapid.Bool().Draw(t, "kubelet") {
					sc.Steps = append(sc.Steps, Step{Op: "kubelet"})
				} else {
					sc.Steps = append(sc.Steps, Step{Op: "gc"})
				}
			case 7:
				sc.Steps = append(sc.Steps, Step{Op: "restart"})
			case 8, 9:
				disturb()
			case 10:
				sc.Steps = append(sc.Steps, Step{Op: "tpUnfinalize", I: genPoolIdx(t, opts.PoolSize)})
			default:
				sc.Steps = append(sc.Steps, Step{Op: "quiesce"})
			}
		}
	}
	return sc
}

func TestC04(t *testing.T) {
	st := NewStats("C04", "engine", "scenario = 1-2 ObjectSets (local/delegated/sliced phases, namespaced and cluster flavour) rolled out, objects given blocking finalizers / other owners / deleted, then deletion or archival interleaved with reconciles, GC, another revision, API faults, crashes and restarts at arbitrary calls; non-trivial = a teardown that needed >=2 passes of a set with >=2 non-empty phases")
	opts := SetGenOpts{AllowClass: true, Classes: []string{engine.ClassDefault, engine.ClassDefault, engine.ClassRemote}, AllowSliced: true, AllowCluster: true, PoolSize: 5, MaxObjs: 2, MaxPhases: 3}
	mk := func(sc *Scenario) *Runner { return NewRunner(sc, &C04Monitor{}) }
	CheckOrReplay(t, st, func(data []byte) (any, error) { return ReplayScenario(data, mk) }, func(rt *rapid.T) {
		sc := genTeardownWorld(rt, "C04", opts, false)
		r := mk(sc)
		err := r.Run()
		st.Count("passes", int64(len(r.W.Passes)))
		st.Case(sc, r.Labels["c04-multi-pass-multi-phase-teardown"], r.LabelList()...)
		st.Report(rt, sc, err)
	})
}

func TestC05(t *testing.T) {
	st := NewStats("C05", "engine", "scenario = teardown (delete, orphan delete, archive) of 1-2 ObjectSets with managed objects in all ownership states, plus third-party actions injected at API-call granularity between PKO's read of an object and its delete/patch of that object (re-own, delete+recreate, edit, add owner, delete, strip owners); non-trivial = the injected action changed the object between PKO's read and its write")
	opts := SetGenOpts{AllowClass: true, Classes: []string{engine.ClassDefault, engine.ClassDefault, engine.ClassRemote}, AllowCluster: true, PoolSize: 4, MaxObjs: 3, MaxPhases: 2}
	mk := func(sc *Scenario) *Runner { return NewRunner(sc, &C05Monitor{}) }
	CheckOrReplay(t, st, func(data []byte) (any, error) { return ReplayScenario(data, mk) }, func(rt *rapid.T) {
		sc := genTeardownWorld(rt, "C05", opts, true)
		r := mk(sc)
		err := r.Run()
		st.Count("passes", int64(len(r.W.Passes)))
		st.Case(sc, r.Labels["c05-changed-between-read-and-delete"] || r.Labels["c05-changed-between-read-and-patch"], r.LabelList()...)
		st.Report(rt, sc, err)
	})
}
