package checks

import (
	"package-operator.run/verifharness/engine"
	"package-operator.run/verifharness/kubesim"
	"package-operator.run/verifharness/refmodel"
)

// C02Monitor: handover only moves objects forward between revisions.
type C02Monitor struct {
	revisions     map[string]int64 // ObjectSet uid -> first non-zero status.revision seen
	Adoptions     int
	maxAdopterRev int64
}

func isPKOOwnerKind(kind string) bool {
	switch kind {
	case "ObjectSet", "ClusterObjectSet", "ObjectSetPhase", "ClusterObjectSetPhase":
		return true
	}
	return false
}

func controllerOf(obj map[string]any, annot bool) *refmodel.ObjRef {
	for _, r := range OwnersOf(obj, annot) {
		if r.Controller {
			c := r
			return &c
		}
	}
	return nil
}

func countControllers(obj map[string]any, annot bool) int {
	n := 0
	for _, r := range OwnersOf(obj, annot) {
		if r.Controller {
			n++
		}
	}
	return n
}

func sameRef(a, b refmodel.ObjRef) bool {
	return a.Group == b.Group && a.Kind == b.Kind && a.Name == b.Name && a.UID == b.UID
}

func (m *C02Monitor) AfterPass(r *Runner, pv *PassView) error {
	if m.revisions == nil {
		m.revisions = map[string]int64{}
	}
	// history: status.revision never changes once non-zero
	for _, kind := range []string{"ObjectSet", "ClusterObjectSet"} {
		for _, k := range r.W.ListKeys(engine.PKOGroup, kind) {
			o := r.W.Store.PeekNoCopy(k)
			rev := asInt(asMap(o["status"])["revision"])
			uid := engine.UID(o)
			if old, ok := m.revisions[uid]; ok && old != rev {
				return Violf("C02", "revision-changed", "status.revision of %s changed from %d to %d", k, old, rev)
			}
			if rev != 0 {
				m.revisions[uid] = rev
			}
		}
	}
	if !isSetController(pv.P.Controller) && !isPhaseController(pv.P.Controller) {
		return nil
	}
	if pv.Owner == nil {
		return nil
	}
	annot := pv.P.Controller == engine.CtrlRemotePhase
	ownerID := OwnerIDOf(pv.Owner)
	ownerRev := OwnerRevisionInPass(pv)
	if m.Adoptions > 0 && ownerRev > 0 && ownerRev < m.maxAdopterRev {
		r.Labels["c02-older-revision-reconciled-after-adoption"] = true
	}
	lastReadMissing := map[kubesim.Key]bool{}
	lastReadRV := map[kubesim.Key]string{}
	for _, c := range pv.Calls {
		if c.Actor == "pko" && c.Verb == "get" && c.Key.Group != engine.PKOGroup {
			// only an answer that was true when given counts as "observed absent": a label-selected cache not showing an
			// object that exists is no observation of absence
			lastReadMissing[c.Key] = c.Resp == nil && r.StateAt(c.Key, c.Seq-1) == nil
			if c.Resp != nil {
				lastReadRV[c.Key] = engine.RVOf(c.Resp)
			}
		}
		if c.Actor != "pko" || !c.IsWrite() || c.DryRun || c.Err != "" || c.Key.Group == engine.PKOGroup {
			continue
		}
		// the "object is absent, create it" branch is an apply patch: if somebody created the object after the pass looked, the
		// patch lands on that object without any ownership check. Violations through this window get their own key.
		createRace := lastReadMissing[c.Key] && c.PatchType == "apply" && c.Pre != nil
		Violf := func(prop, key, format string, args ...any) *Violation {
			if createRace {
				key += ":apply-after-observing-absent"
			} else if rv, ok := lastReadRV[c.Key]; ok && c.Pre != nil && rv != engine.RVOf(c.Pre) {
				// somebody (another PKO controller running concurrently) wrote the object after this pass read it
				key += ":" + c.Verb + "-" + c.PatchType + "-on-stale-read"
			}
			return Violf(prop, key, format, args...)
		}
		if c.Pre == nil || c.Post == nil {
			continue // creation / deletion: no handover
		}
		preRev, preNum, _ := engine.RevisionOf(c.Pre)
		postRev, postNum, _ := engine.RevisionOf(c.Post)
		if preNum && postNum && postRev < preRev {
			return Violf("C02", "revision-lowered",
				"pass %d of %s %s: %s on %s lowered the recorded revision from %d to %d", pv.P.ID, ownerID.Kind, ownerID.Name, c.Verb, c.Key, preRev, postRev)
		}
		if countControllers(c.Post, annot) > 1 {
			return Violf("C02", "two-controllers", "pass %d: %s on %s left %d controllers", pv.P.ID, c.Verb, c.Key, countControllers(c.Post, annot))
		}
		preC, postC := controllerOf(c.Pre, annot), controllerOf(c.Post, annot)
		becameController := postC != nil && isPKOOwnerKind(postC.Kind) && (preC == nil || !sameRef(*preC, *postC))
		if becameController {
			m.Adoptions++
			if ownerRev > m.maxAdopterRev {
				m.maxAdopterRev = ownerRev
			}
			r.Labels["c02-adoption"] = true
			if !(postC.Group == ownerID.Group && postC.Kind == ownerID.Kind && postC.Name == ownerID.Name && postC.UID == ownerID.UID) {
				return Violf("C02", "adopter-is-not-the-writer",
					"pass %d of %s %s made %v the controller of %s", pv.P.ID, ownerID.Kind, ownerID.Name, *postC, c.Key)
			}
			if preNum && preRev > ownerRev {
				return Violf("C02", "adopted-newer-revision",
					"pass %d of %s %s (revision %d) took control of %s whose recorded revision was %d", pv.P.ID, ownerID.Kind, ownerID.Name, ownerRev, c.Key, preRev)
			}
			if !postNum || postRev != ownerRev {
				return Violf("C02", "adoption-without-revision",
					"pass %d of %s %s (revision %d) took control of %s but the recorded revision afterwards is %d", pv.P.ID, ownerID.Kind, ownerID.Name, ownerRev, c.Key, postRev)
			}
			if preC != nil && !annot {
				// former controller demoted to plain owner, still listed
				found := false
				for _, o := range OwnersOf(c.Post, annot) {
					if sameRef(o, *preC) {
						found = true
						if o.Controller {
							return Violf("C02", "former-controller-still-controller", "pass %d: after adoption of %s the former controller %v is still a controller", pv.P.ID, c.Key, *preC)
						}
					}
				}
				if !found {
					return Violf("C02", "former-controller-dropped",
						"pass %d of %s %s adopted %s but dropped the former controller %v from ownerReferences", pv.P.ID, ownerID.Kind, ownerID.Name, c.Key, *preC)
				}
			}
		} else if (c.Verb == "patch" && c.PatchType == "apply") || c.Verb == "update" {
			// a content write by somebody who is not (and does not become) the controller must change nothing
			if !ControlledByID(c.Post, ownerID, annot) && c.Changed() {
				return Violf("C02", "write-by-non-controller",
					"pass %d of %s %s changed %s without being or becoming its controller", pv.P.ID, ownerID.Kind, ownerID.Name, c.Key)
			}
		}
	}
	return nil
}

var _ = kubesim.JSONEqual
