package checks

import (
	"fmt"
	"sort"

	"package-operator.run/verifharness/engine"
	"package-operator.run/verifharness/kubesim"
	"package-operator.run/verifharness/refmodel"
)

// C06Monitor: status never claims more than the pass observed.
type C06Monitor struct {
	succeeded map[string]bool // owner uid -> Succeeded=True was stored
	archived  map[string]bool // owner uid -> Archived=True was stored
	// StaleSupersetOnErrorPath counts error-path status writes whose controllerOf carries entries the pass did not re-observe (information only).
	ErrorPathWrites int
	StatusWrites    int
}

type ctrlRef struct{ Group, Kind, Namespace, Name string }

func controllerOfList(status map[string]any) []ctrlRef {
	var out []ctrlRef
	for _, e := range asList(status["controllerOf"]) {
		m := asMap(e)
		out = append(out, ctrlRef{asStr(m["group"]), asStr(m["kind"]), asStr(m["namespace"]), asStr(m["name"])})
	}
	return out
}

func refOfKey(k kubesim.Key, obj map[string]any) ctrlRef {
	// PKO records the namespace of the object as it read it (empty for cluster-scoped kinds)
	return ctrlRef{k.Group, k.Kind, kubesim.MetaString(obj, "namespace"), k.Name}
}

func sortedRefs(m map[ctrlRef]bool) []string {
	var out []string
	for r := range m {
		out = append(out, fmt.Sprintf("%s/%s %s/%s", r.Group, r.Kind, r.Namespace, r.Name))
	}
	sort.Strings(out)
	return out
}

func (m *C06Monitor) AfterPass(r *Runner, pv *PassView) error {
	if m.succeeded == nil {
		m.succeeded = map[string]bool{}
		m.archived = map[string]bool{}
	}
	// history part: Succeeded is never withdrawn; after Archived=True nothing is reported any more
	for _, kind := range []string{"ObjectSet", "ClusterObjectSet"} {
		for _, k := range r.W.ListKeys(engine.PKOGroup, kind) {
			o := r.W.Store.PeekNoCopy(k)
			uid := engine.UID(o)
			conds := engine.Conditions(o)
			if c, ok := conds["Succeeded"]; ok && c.Status == "True" {
				m.succeeded[uid] = true
			} else if m.succeeded[uid] {
				return Violf("C06", "succeeded-withdrawn", "%s had Succeeded=True and now reports %q", k, c.Status)
			}
			if c, ok := conds["Archived"]; ok && c.Status == "True" {
				m.archived[uid] = true
				if _, has := conds["Available"]; has {
					return Violf("C06", "available-after-archived", "%s is Archived=True but still shows an Available condition", k)
				}
				if len(controllerOfList(asMap(o["status"]))) != 0 {
					return Violf("C06", "controllerof-after-archived", "%s is Archived=True but controllerOf is %v", k, controllerOfList(asMap(o["status"])))
				}
			}
		}
	}
	setPass := isSetController(pv.P.Controller)
	phasePass := isPhaseController(pv.P.Controller)
	if (!setPass && !phasePass) || pv.Owner == nil {
		return nil
	}
	if phasePass {
		cls := kubesim.LabelsOf(pv.Owner)["package-operator.run/phase-class"]
		want := engine.ClassDefault
		if pv.P.Controller == engine.CtrlRemotePhase {
			want = engine.ClassRemote
		}
		if cls != want {
			return nil
		}
	}
	ownerName := kubesim.MetaString(pv.Owner, "name")
	ownerNS := kubesim.MetaString(pv.Owner, "namespace")
	// an ObjectSet read with Archived=True must not be touched again
	if c, ok := engine.Conditions(pv.Owner)["Archived"]; ok && c.Status == "True" && setPass {
		r.Labels["c06-pass-after-archived"] = true
		for _, c := range pv.Calls {
			if c.Actor == "pko" && c.IsWrite() && !c.DryRun {
				return Violf("C06", "reconciled-after-archived", "pass %d: %s is Archived=True but PKO issued %s on %s", pv.P.ID, ownerName, c.Verb, c.Key)
			}
		}
		return nil
	}
	if len(pv.StatusWrites) == 0 {
		return nil
	}
	annot := pv.P.Controller == engine.CtrlRemotePhase
	cluster := pv.P.Controller == engine.CtrlClusterObjectSet
	ownerID := OwnerIDOf(pv.Owner)
	phases := OwnerPhases(r.W.Store, pv.Owner)
	probes := r.ProbesFor(pv.Owner)
	// what the pass observed
	observedControlled := map[ctrlRef]bool{}
	allSpecControlled := true
	allPass := true
	for _, ph := range phases {
		if ph.Class != "" && setPass {
			pk := kubesim.Key{Group: engine.PKOGroup, Kind: setKind(cluster, "ObjectSetPhase"), Namespace: ownerNS, Name: ownerName + "-" + ph.Name}
			po := pv.Observed[pk]
			if po == nil {
				allPass = false
				if len(ph.Keys) > 0 {
					allSpecControlled = false
				}
				continue
			}
			// if the pass created the phase object its status is empty
			for _, e := range controllerOfList(asMap(po["status"])) {
				observedControlled[e] = true
			}
			c, ok := engine.Conditions(po)["Available"]
			if !ok || c.ObservedGeneration != engine.Generation(po) || c.Status != "True" {
				allPass = false
			}
			// InTransition bookkeeping for delegated phases is judged on the phase's report
			reported := map[string]bool{}
			for _, e := range controllerOfList(asMap(po["status"])) {
				reported[e.Group+"/"+e.Kind+"/"+e.Name] = true
			}
			for _, k := range ph.Keys {
				if !reported[k.Group+"/"+k.Kind+"/"+k.Name] {
					allSpecControlled = false
				}
			}
			continue
		}
		for _, k := range ph.Keys {
			o := pv.Observed[k]
			if o == nil {
				allPass = false
				allSpecControlled = false
				continue
			}
			if ControlledByID(o, ownerID, annot) {
				observedControlled[refOfKey(k, o)] = true
			} else {
				allSpecControlled = false
			}
			if ok, _ := refmodel.Eval(probes, o); !ok {
				allPass = false
			}
		}
	}
	readList := map[ctrlRef]bool{}
	for _, e := range controllerOfList(asMap(pv.Owner["status"])) {
		readList[e] = true
	}
	for _, sw := range pv.StatusWrites {
		m.StatusWrites++
		body := asMap(sw.Body)
		st := asMap(body["status"])
		conds := engine.Conditions(body)
		av, hasAv := conds["Available"]
		completed := pv.P.Err == "" && hasAv && (av.Reason == "Available" || av.Reason == "ProbeFailure") && av.ObservedGeneration == engine.Generation(pv.Owner)
		written := map[ctrlRef]bool{}
		for _, e := range controllerOfList(st) {
			written[e] = true
		}
		archivedNow := false
		if a, ok := conds["Archived"]; ok && a.Status == "True" {
			archivedNow = true
		}
		if archivedNow {
			if hasAv {
				return Violf("C06", "available-after-archived", "pass %d: %s wrote Archived=True together with an Available condition", pv.P.ID, ownerName)
			}
			if len(written) != 0 {
				return Violf("C06", "controllerof-after-archived", "pass %d: %s wrote Archived=True with controllerOf %v", pv.P.ID, ownerName, sortedRefs(written))
			}
			continue
		}
		if OwnerArchived(pv.Owner) || OwnerDeleting(pv.Owner) {
			continue // teardown in progress: C04
		}
		if hasAv && av.Status == "True" {
			r.Labels["c06-available-true-written"] = true
			if av.ObservedGeneration != engine.Generation(pv.Owner) {
				return Violf("C06", "available-for-other-generation",
					"pass %d: %s wrote Available=True for generation %d but the pass read generation %d", pv.P.ID, ownerName, av.ObservedGeneration, engine.Generation(pv.Owner))
			}
			if !allPass {
				return Violf("C06", "available-true-not-observed",
					"pass %d: %s %s wrote Available=True although, on the states this pass observed, some object of some phase was missing or failed a selecting probe", pv.P.ID, ownerID.Kind, ownerName)
			}
			for e := range observedControlled {
				if !written[e] {
					return Violf("C06", "controllerof-incomplete",
						"pass %d: %s wrote Available=True but controllerOf %v lacks %v which the pass saw under its control", pv.P.ID, ownerName, sortedRefs(written), e)
				}
			}
		}
		if completed {
			for e := range written {
				if !observedControlled[e] {
					return Violf("C06", "controllerof-not-observed",
						"pass %d: %s %s wrote controllerOf entry %v that the pass did not see under its control (observed: %v)", pv.P.ID, ownerID.Kind, ownerName, e, sortedRefs(observedControlled))
				}
			}
			if setPass {
				if _, hasIT := conds["InTransition"]; !hasIT && !allSpecControlled {
					return Violf("C06", "intransition-cleared-early",
						"pass %d: %s cleared InTransition although not every object in spec was seen under its control", pv.P.ID, ownerName)
				}
			}
		} else {
			m.ErrorPathWrites++
			for e := range written {
				if !readList[e] && !observedControlled[e] {
					return Violf("C06", "controllerof-invented-on-error-path",
						"pass %d: %s wrote controllerOf entry %v on an aborted pass; it was neither in the status it read nor observed", pv.P.ID, ownerName, e)
				}
			}
		}
		if setPass {
			sNow, hasS := conds["Succeeded"]
			sBefore := engine.Conditions(pv.Owner)["Succeeded"]
			if hasS && sNow.Status == "True" && sBefore.Status != "True" {
				it, hasIT := conds["InTransition"]
				if !(hasAv && av.Status == "True") || (hasIT && it.Status == "True") {
					return Violf("C06", "succeeded-set-wrongly",
						"pass %d: %s set Succeeded while Available=%q InTransition=%q", pv.P.ID, ownerName, av.Status, it.Status)
				}
			}
		}
	}
	return nil
}
