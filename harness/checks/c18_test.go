package checks

import (
	"testing"

	"pgregory.net/rapid"

	"package-operator.run/verifharness/engine"
)

func genOTSpec(t *rapid.T, cluster bool) *OTSpec {
	s := &OTSpec{Cluster: cluster}
	ns := rapid.IntRange(0, 3).Draw(t, "nsources")
	keysAvail := map[string]bool{}
	for i := 0; i < ns; i++ {
		src := OTSource{}
		switch rapid.IntRange(0, 9).Draw(t, "srckind") {
		case 0:
			src.Kind, src.Name = "Secret", "src-s"
		case 1:
			src.Kind, src.Name = "Namespace", engine.NSOther
		default:
			src.Kind, src.Name = "ConfigMap", rapid.SampledFrom([]string{"src-0", "src-1"}).Draw(t, "srcname")
		}
		switch rapid.IntRange(0, 7).Draw(t, "srcns") {
		case 0:
			src.NS = engine.NSMain
		case 1:
			src.NS = engine.NSOther
		}
		if cluster && src.Kind != "Namespace" && src.NS == "" && rapid.IntRange(0, 3).Draw(t, "fixns") > 0 {
			src.NS = engine.NSMain
		}
		src.Optional = rapid.IntRange(0, 2).Draw(t, "optional") == 0
		if src.Kind == "Namespace" {
			src.Keys = []string{"nsname"}
		} else {
			src.Keys = []string{"k0"}
			if rapid.Bool().Draw(t, "twokeys") {
				src.Keys = append(src.Keys, "k1")
			}
		}
		for _, k := range src.Keys {
			keysAvail[k] = true
		}
		s.Sources = append(s.Sources, src)
	}
	nf := rapid.IntRange(0, 3).Draw(t, "nfields")
	for i := 0; i < nf; i++ {
		key := rapid.SampledFrom([]string{"k0", "k1", "nsname"}).Draw(t, "fkey")
		kind := rapid.SampledFrom([]string{"raw", "quote", "guard", "guard", "b64", "upper", "lit", "env", "opt", "opt"}).Draw(t, "fkind")
		f := OTField{DataKey: rapid.SampledFrom([]string{"a", "b", "c"}).Draw(t, "datakey") + string(rune('0'+i))}
		switch kind {
		case "lit":
			f.Expr = "lit:" + rapid.SampledFrom([]string{"x", "hello world"}).Draw(t, "lit")
		case "env":
			f.Expr = "env"
		default:
			if !keysAvail[key] && kind != "guard" && kind != "opt" && rapid.IntRange(0, 3).Draw(t, "allowmissing") > 0 {
				kind = "guard"
			}
			f.Expr = kind + ":" + key
		}
		s.Fields = append(s.Fields, f)
	}
	switch rapid.IntRange(0, 11).Draw(t, "oddity") {
	case 0:
		s.Broken = "parse"
	case 1:
		s.Broken = "exec"
	case 2:
		s.TargetNS = engine.NSOther
	case 3:
		s.TargetKind = "ClusterWidget"
	case 4:
		s.TargetNS = engine.NSMain
	}
	return s
}

func TestC18(t *testing.T) {
	st := NewStats("C18", "engine", "scenario = real ObjectTemplate / ClusterObjectTemplate controller; templates from a grammar R-template can evaluate (config access raw/quoted/guarded/b64/upper, literals, environment) producing a ConfigMap or a cluster-scoped object; 0-3 sources (ConfigMap/Secret/Namespace; required/optional; in-namespace, other namespace, cluster-scoped; several items); histories of source create/edit/delete, template edits, reconciles, restarts, deletion; oracle = reference render of the current sources + invalid-class rules + namespace confinement + watch routing through the real EnqueueWatchingObjects + release of watches on deletion; non-trivial = a source changed after a verified render and the target was verified again")
	mk := func(sc *Scenario) (*Runner, *C18Monitor) {
		m := &C18Monitor{}
		return NewRunner(sc, m), m
	}
	CheckOrReplay(t, st, func(data []byte) (any, error) {
		return ReplayScenario(data, func(sc *Scenario) *Runner { r, _ := mk(sc); return r })
	}, func(rt *rapid.T) {
		sc := &Scenario{Prop: "C18"}
		cluster := rapid.IntRange(0, 3).Draw(rt, "cluster") == 0
		ctrl := engine.CtrlObjectTemplate
		if cluster {
			ctrl = engine.CtrlClusterObjectTemplate
		}
		pre := rapid.IntRange(0, 3).Draw(rt, "presrc")
		for i := 0; i < pre; i++ {
			st := Step{Op: "srcSet", I: rapid.IntRange(0, 3).Draw(rt, "slot"), J: rapid.IntRange(0, 6).Draw(rt, "val")}
			if rapid.IntRange(0, 3).Draw(rt, "prelabel") == 0 {
				st.S = "prelabel"
			}
			sc.Steps = append(sc.Steps, st)
		}
		spec0 := genOTSpec(rt, cluster)
		// family: PKO on a HyperShift management cluster - the environment a template sees depends on the namespace it lives
		// in (the hosted cluster that namespace belongs to); a second template in the other namespace is reconciled in between
		hyperShift := rapid.IntRange(0, 3).Draw(rt, "hypershift") == 0
		hcSteps := func() {
			switch rapid.IntRange(0, 3).Draw(rt, "hcstep") {
			case 0:
				sc.Steps = append(sc.Steps, Step{Op: "hostedCluster", I: rapid.IntRange(0, 1).Draw(rt, "hc"), On: rapid.IntRange(0, 2).Draw(rt, "hcon") > 0})
			case 1:
				sc.Steps = append(sc.Steps, Step{Op: "setHyperShift", On: rapid.IntRange(0, 3).Draw(rt, "hson") > 0})
			default:
				// the template of the other namespace gets its pass (index 1 of the controller's objects: "ot" < "ot2")
				sc.Steps = append(sc.Steps, Step{Op: "reconcile", Ctrl: engine.CtrlObjectTemplate, I: 1})
			}
		}
		if hyperShift {
			spec0.Fields = append(spec0.Fields, OTField{DataKey: "hc9", Expr: "hc"})
			sc.Steps = append(sc.Steps, Step{Op: "setHyperShift", On: true}, Step{Op: "createTemplate2"})
			for i := rapid.IntRange(0, 2).Draw(rt, "nhc0"); i > 0; i-- {
				sc.Steps = append(sc.Steps, Step{Op: "hostedCluster", I: rapid.IntRange(0, 1).Draw(rt, "hc0"), On: true})
			}
		}
		sc.Steps = append(sc.Steps, Step{Op: "createTemplate", OT: spec0})
		if rapid.IntRange(0, 5).Draw(rt, "failfirst") == 0 {
			// the template's first passes all fail on some API call, then it is deleted before any pass succeeded
			for i := rapid.IntRange(1, 3).Draw(rt, "nfail"); i > 0; i-- {
				sc.Steps = append(sc.Steps, Step{Op: "fault", I: rapid.IntRange(0, 9).Draw(rt, "ncall0"), J: rapid.SampledFrom([]int{0, 4, 5, 6, 7}).Draw(rt, "fkind0")}, Step{Op: "reconcile", Ctrl: ctrl})
			}
			sc.Steps = append(sc.Steps, Step{Op: "deleteTemplate"}, Step{Op: "reconcile", Ctrl: ctrl})
		}
		n := rapid.IntRange(3, 24).Draw(rt, "nsteps")
		for i := 0; i < n; i++ {
			if hyperShift && rapid.IntRange(0, 2).Draw(rt, "hcturn") == 0 {
				hcSteps()
				continue
			}
			switch k := rapid.IntRange(0, 14).Draw(rt, "kind"); {
			case k == 14:
				// an API call of the next pass fails (plain error or a status answer: 500, 429, 503, timeout)
				sc.Steps = append(sc.Steps, Step{Op: "fault", I: rapid.IntRange(0, 9).Draw(rt, "ncall"), J: rapid.SampledFrom([]int{0, 0, 1, 4, 5, 6, 7}).Draw(rt, "fkind")}, Step{Op: "reconcile", Ctrl: ctrl})
			case k <= 5:
				sc.Steps = append(sc.Steps, Step{Op: "reconcile", Ctrl: ctrl})
			case k <= 8:
				st := Step{Op: "srcSet", I: rapid.IntRange(0, 3).Draw(rt, "slot"), J: rapid.IntRange(0, 6).Draw(rt, "val")}
				if d := rapid.IntRange(0, 9).Draw(rt, "del"); d <= 1 {
					st.S = "del"
				} else if d == 2 {
					st.S = "prelabel"
				}
				sc.Steps = append(sc.Steps, st)
			case k == 9:
				sc.Steps = append(sc.Steps, Step{Op: "editTemplate", OT: genOTSpec(rt, cluster)})
			case k == 10:
				sc.Steps = append(sc.Steps, Step{Op: "restart"})
			case k == 11:
				sc.Steps = append(sc.Steps, Step{Op: "deleteTemplate"})
			case k == 12:
				sc.Steps = append(sc.Steps, Step{Op: "setEnv", I: rapid.IntRange(0, len(PkgEnvs)-1).Draw(rt, "env")})
			default:
				sc.Steps = append(sc.Steps, Step{Op: "quiesce"})
			}
		}
		if rapid.Bool().Draw(rt, "settle") {
			sc.Steps = append(sc.Steps, Step{Op: "quiesce"})
		}
		r, m := mk(sc)
		// count "verified, source edited, verified again"
		verified := 0
		err := func() error {
			for i, s := range sc.Steps {
				before := r.Labels["c18-target-verified"]
				delete(r.Labels, "c18-target-verified")
				if e := r.Exec(i, s); e != nil {
					return e
				}
				if e := m.AfterStep(r, i, s); e != nil {
					return e
				}
				if r.Labels["c18-target-verified"] {
					if verified == 1 && r.Labels["c18-source-edited-after-verify"] {
						r.Labels["c18-reverified-after-source-change"] = true
					}
					if verified == 0 {
						verified = 1
					}
				} else if before {
					r.Labels["c18-target-verified"] = true
				}
				if verified == 1 && s.Op == "srcSet" {
					r.Labels["c18-source-edited-after-verify"] = true
				}
			}
			return nil
		}()
		for c, n := range m.Classes {
			if c == "" {
				c = "renderable"
			}
			st.Count("class:"+c, int64(n))
		}
		st.Case(sc, r.Labels["c18-reverified-after-source-change"], r.LabelList()...)
		st.Report(rt, sc, err)
	})
}
