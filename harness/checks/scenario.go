package checks

import (
	"encoding/json"
	"fmt"
	"os"
	"sort"
	"strconv"
	"strings"

	apierrors "k8s.io/apimachinery/pkg/api/errors"
	metav1 "k8s.io/apimachinery/pkg/apis/meta/v1"
	"k8s.io/apimachinery/pkg/apis/meta/v1/unstructured"
	"k8s.io/apimachinery/pkg/runtime/schema"
	"k8s.io/apimachinery/pkg/types"
	"k8s.io/utils/ptr"
	"sigs.k8s.io/controller-runtime/pkg/client"

	corev1alpha1 "package-operator.run/apis/core/v1alpha1"
	"package-operator.run/internal/constants"

	"package-operator.run/verifharness/engine"
	"package-operator.run/verifharness/kubesim"
	"package-operator.run/verifharness/refmodel"
)

// ObjSpec is one object of a phase, symbolic.
type ObjSpec struct {
	Pool    int    `json:"pool"`              // index into the identity pool
	Variant int    `json:"variant,omitempty"` // content variant
	CP      string `json:"cp,omitempty"`      // collisionProtection
	// Special marks a deliberately violating/odd object (C11): "", "ghost", "ownerref",
	// "foreignns", "clusterkind", "clusterkind-ns", "reject", "dup"; "nsb" is valid: for a cluster-scoped owner the object
	// lives in the second namespace (a namesake of the same pool object in the main namespace).
	Special string `json:"special,omitempty"`
}

// PhaseSpec is one phase.
type PhaseSpec struct {
	Name   string    `json:"name"`
	Class  string    `json:"class,omitempty"`
	Objs   []ObjSpec `json:"objs"`
	Sliced bool      `json:"sliced,omitempty"` // objects are stored in an ObjectSlice
}

// SetSpec describes an ObjectSet (or a deployment template).
type SetSpec struct {
	Name     string                     `json:"name,omitempty"`
	Cluster  bool                       `json:"cluster,omitempty"`
	Phases   []PhaseSpec                `json:"phases"`
	Probes   []refmodel.RObjectSetProbe `json:"probes,omitempty"`
	Previous []int                      `json:"previous,omitempty"` // indexes into the sets created so far
	Paused   bool                       `json:"paused,omitempty"`
	PkgLabel string                     `json:"pkgLabel,omitempty"` // package label on the owner
}

// Step is one scenario action. Integer parameters are symbolic (taken modulo what exists).
type Step struct {
	Op   string   `json:"op"`
	Ctrl string   `json:"ctrl,omitempty"`
	I    int      `json:"i,omitempty"`
	J    int      `json:"j,omitempty"`
	K    int      `json:"k,omitempty"`
	On   bool     `json:"on,omitempty"`
	S    string   `json:"s,omitempty"`
	Set  *SetSpec `json:"set,omitempty"`
	OT   *OTSpec  `json:"ot,omitempty"`
}

// Scenario is a complete generated case.
type Scenario struct {
	Prop string `json:"prop"`
	// Part names the part of the property's check the scenario belongs to (the driver routes a replay by it)
	Part  string    `json:"part,omitempty"`
	Note  string    `json:"note,omitempty"`
	Force bool      `json:"forceAdoption,omitempty"`
	Tmpls []SetSpec `json:"tmpls,omitempty"` // deployment template pool
	Pkgs  []PkgDesc `json:"pkgs,omitempty"`  // package image pool: image i is built from Pkgs[i]
	// Lag: ObjectSets created since the last "sync" step are invisible to the ObjectDeployment controller's reads
	Lag bool `json:"lag,omitempty"`
	// CreationOrder: symbolic object indexes of steps (and the round-robin of quiesce) go by creation order, not by name
	CreationOrder bool `json:"creationOrder,omitempty"`
	// ClusterDep: the deployment ops act on a ClusterObjectDeployment (revisions are ClusterObjectSets)
	ClusterDep bool `json:"clusterDep,omitempty"`
	// GracefulWidgets: Widgets are deleted gracefully (stay terminating without finalizers until the "kubelet" step)
	GracefulWidgets bool   `json:"gracefulWidgets,omitempty"`
	Steps           []Step `json:"steps"`
}

// SetInfo remembers a created ObjectSet.
type SetInfo struct {
	Name    string
	Cluster bool
	Spec    SetSpec
	UID     string
}

// Monitor observes passes and steps.
type Monitor interface {
	AfterPass(r *Runner, pv *PassView) error
}

// StepMonitor is implemented by monitors that also look at every step boundary.
type StepMonitor interface {
	AfterStep(r *Runner, idx int, st Step) error
}

// Runner executes a scenario.
type Runner struct {
	W        *engine.World
	Sc       *Scenario
	Pool     []engine.PoolObj
	Sets     []*SetInfo
	Monitors []Monitor
	Labels   map[string]bool
	// armed fault for the next pass
	faultKind  kubesim.Fault
	faultNCall int
	// faultDryRunN > 0: the armed fault hits the n-th dry-run call of the next pass instead of call number faultNCall
	faultDryRunN, faultDryRunCount int
	// armed in-pass injection: before the injN-th pool write of the next pass, act on that very key
	injN, injKind int
	injCount      int
	injPick       int
	// nested > 0 while a pass of another controller runs inside a pass (InjectOtherControllerPass)
	nested    int
	nestedErr error
	// armed owner edit: before call number ownerInjN of the next pass the user toggles the owner's pause state
	ownerInjN int
	// armed in-pass cache sync: before call number syncInjN of the next pass the lagging reader catches up
	syncInjN int
	// armed concurrent write: right before PKO's touchInjN-th write on one of its own API objects in the next pass a
	// third party updates that object (resourceVersion moves on)
	touchInjN, touchCount, touchSeq int
	// HyperShift: the environment says PKO runs on a HyperShift management cluster (see applyEnv)
	HyperShift bool
	// InPassHook lets a property inject third-party actions inside a pass.
	InPassHook func(r *Runner, c *kubesim.Call)
	// Log collects a short human readable trace digest.
	Log []string
	// MaxQuiesceRounds bounds quiesce.
	MaxQuiesceRounds int
	Views            []*PassView
	KeepViews        bool
	// LastQuiesceOK: the last quiesce step reached a fixpoint
	LastQuiesceOK bool
	// EnvIdx is the index of the current environment variant; pullsBefore snapshots pull counters at pass start
	EnvIdx      int
	pullsBefore map[string]int
	// probeRegistry maps the canonical JSON of rendered availabilityProbes to their reference form.
	probeRegistry map[string][]refmodel.RObjectSetProbe
}

func probesFingerprint(v any) string {
	m, err := kubesim.Normalize(map[string]any{"p": v})
	if err != nil {
		return "?"
	}
	b, _ := json.Marshal(m["p"])
	return string(b)
}

// RegisterProbes remembers the reference form of a probe list.
func (r *Runner) RegisterProbes(ps []refmodel.RObjectSetProbe) {
	if r.probeRegistry == nil {
		r.probeRegistry = map[string][]refmodel.RObjectSetProbe{}
	}
	api := refmodel.API(ps)
	if len(api) == 0 {
		return
	}
	r.probeRegistry[probesFingerprint(api)] = ps
}

// ProbesFor returns the reference probes of an ObjectSet / ObjectSetPhase object (JSON form).
func (r *Runner) ProbesFor(owner map[string]any) []refmodel.RObjectSetProbe {
	raw, ok := asMap(owner["spec"])["availabilityProbes"]
	if !ok || len(asList(raw)) == 0 {
		return nil
	}
	ps, ok := r.probeRegistry[probesFingerprint(raw)]
	if !ok {
		panic("harness: unregistered probe list " + probesFingerprint(raw))
	}
	return ps
}

// NewRunner builds a runner with a fresh world.
func NewRunner(sc *Scenario, mons ...Monitor) *Runner {
	r := &Runner{W: engine.NewWorld(), Sc: sc, Pool: engine.Pool(), Monitors: mons, Labels: map[string]bool{}, MaxQuiesceRounds: 12}
	if sc.Force {
		os.Setenv(constants.ForceAdoptionEnvironmentVariable, "1")
	} else {
		os.Unsetenv(constants.ForceAdoptionEnvironmentVariable)
	}
	DepCluster = sc.ClusterDep
	r.W.Store.BeforeCall = r.beforeCall
	r.InstallImages()
	if sc.GracefulWidgets {
		r.W.Store.Graceful = map[schema.GroupKind]bool{engine.GVKWidget.GroupKind(): true}
	}
	return r
}

func (r *Runner) beforeCall(c *kubesim.Call) kubesim.Fault {
	if r.InPassHook != nil {
		r.InPassHook(r, c)
	}
	if r.syncInjN > 0 && c.NCall == r.syncInjN {
		r.syncInjN = 0
		if len(r.W.HiddenFromDeploy) > 0 {
			r.Labels["cache-caught-up-inside-pass"] = true
		}
		r.SyncCaches()
	}
	if r.ownerInjN > 0 && c.NCall == r.ownerInjN {
		r.ownerInjN = 0
		r.toggleOwnerPause(c.Pass)
	}
	if r.injN > 0 && c.Actor == "pko" && !c.DryRun && c.Key.Group != engine.PKOGroup && (c.Verb == "delete" || c.Verb == "patch") {
		r.injCount++
		if r.injCount == r.injN {
			r.injN = 0
			r.injectOn(c.Key, r.injKind)
		}
	}
	if r.touchInjN > 0 && c.Actor == "pko" && !c.DryRun && c.Key.Group == engine.PKOGroup && (c.Verb == "update" || c.Verb == "patch" || c.Verb == "update-status") {
		r.touchCount++
		if r.touchCount == r.touchInjN {
			r.touchInjN = 0
			r.touchObject(c.Key)
		}
	}
	if r.faultKind != kubesim.FaultNone && r.faultDryRunN > 0 {
		// "faultDryRun": the fault is aimed at the n-th server-side dry run of the pass
		if c.Actor == "pko" && c.DryRun {
			r.faultDryRunCount++
			if r.faultDryRunCount == r.faultDryRunN {
				k := r.faultKind
				r.faultKind, r.faultDryRunN = kubesim.FaultNone, 0
				r.Labels["fault-fired"] = true
				r.Labels["fault-on-dry-run"] = true
				return k
			}
		}
		return kubesim.FaultNone
	}
	if r.faultKind != kubesim.FaultNone && c.NCall == r.faultNCall {
		k := r.faultKind
		r.faultKind = kubesim.FaultNone
		r.Labels["fault-fired"] = true
		if c.IsWrite() {
			r.Labels["fault-on-write"] = true
		}
		return k
	}
	return kubesim.FaultNone
}

// touchObject: somebody else (another controller updating status, a user annotating) writes the object PKO is about
// to write, after PKO read it: PKO's update carries a stale resourceVersion and is answered with a conflict.
func (r *Runner) touchObject(k kubesim.Key) {
	cur := r.W.Store.Peek(k)
	if cur == nil {
		return
	}
	r.touchSeq++
	r.W.ActAs("thirdparty", func(c client.Client) {
		u := engine.U(cur)
		a := u.GetAnnotations()
		if a == nil {
			a = map[string]string{}
		}
		a["verif.example/touched"] = strconv.Itoa(r.touchSeq)
		u.SetAnnotations(a)
		if err := c.Update(r.W.Ctx, u); err == nil {
			r.Labels["concurrent-write-before-pko-write"] = true
			r.Labels["concurrent-write-before-pko-write:"+k.Kind] = true
		}
	})
}

func mod(i, n int) int {
	if n <= 0 {
		return 0
	}
	i %= n
	if i < 0 {
		i += n
	}
	return i
}

// ---- building PKO objects from specs ------------------------------------------

func (r *Runner) poolObj(i int) engine.PoolObj { return r.Pool[mod(i, len(r.Pool))] }

// BuildObject renders one ObjSpec into an ObjectSetObject (owner namespace given for explicit-ns variants).
func (r *Runner) BuildObject(o ObjSpec, cluster bool) corev1alpha1.ObjectSetObject {
	p := r.poolObj(o.Pool)
	u := engine.Desired(p, o.Variant)
	if cluster {
		// cluster-scoped owners have no namespace to default from
		u.SetNamespace(engine.NSMain)
	}
	switch o.Special {
	case "revanno":
		// valid, unusual: the manifest in the template carries PKO's own revision annotation (e.g. it was exported from a
		// cluster); PKO's bookkeeping has to win
		u.SetAnnotations(map[string]string{"package-operator.run/revision": "1"})
	case "nsb":
		// a cluster-scoped owner may list namesakes in different namespaces: same kind and name in the other namespace
		if cluster {
			u.SetNamespace(engine.NSOther)
		}
	case "dup":
		// same identity as an earlier object of the set
	case "dupver":
		// same identity as an earlier object of the set, listed under another served API version of its kind
		if u.GetKind() == "Widget" {
			u.SetAPIVersion(engine.WidgetGroup + "/v1beta1")
		}
	case "ghost":
		u.SetGroupVersionKind(engine.GVKGhost)
		u.SetName("ghost-" + strconv.Itoa(mod(o.Pool, 2)))
	case "ownerref":
		u.SetOwnerReferences([]metav1.OwnerReference{{APIVersion: "v1", Kind: "ConfigMap", Name: "someone", UID: "foreign-uid"}})
	case "foreignns":
		u.SetNamespace(engine.NSOther)
	case "clusterkind":
		u = unstructured.Unstructured{Object: map[string]any{"spec": map[string]any{"size": int64(o.Variant)}}}
		u.SetGroupVersionKind(engine.GVKClusterWidget)
		u.SetName("cw-" + strconv.Itoa(mod(o.Pool, 2)))
	case "clusterkind-ns":
		u = unstructured.Unstructured{Object: map[string]any{"spec": map[string]any{"size": int64(o.Variant)}}}
		u.SetGroupVersionKind(engine.GVKClusterWidget)
		u.SetName("cw-" + strconv.Itoa(mod(o.Pool, 2)))
		u.SetNamespace(engine.NSMain)
	case "reject":
		u = engine.Desired(engine.PoolObj{GVK: engine.GVKWidget, Name: "w-rej-" + strconv.Itoa(mod(o.Pool, 2))}, o.Variant)
		if cluster {
			u.SetNamespace(engine.NSMain)
		}
		u.Object["spec"].(map[string]any)["rejectMe"] = true
	}
	return engine.ObjectSetObject(u, corev1alpha1.CollisionProtection(o.CP))
}

// TemplateSpec renders phases+probes.
func (r *Runner) TemplateSpec(s SetSpec, sliceNames map[int][]string) corev1alpha1.ObjectSetTemplateSpec {
	r.RegisterProbes(s.Probes)
	ts := corev1alpha1.ObjectSetTemplateSpec{AvailabilityProbes: refmodel.API(s.Probes)}
	for i, ph := range s.Phases {
		p := corev1alpha1.ObjectSetTemplatePhase{Name: ph.Name, Class: ph.Class}
		if names, ok := sliceNames[i]; ok && ph.Sliced {
			p.Slices = names
		} else {
			for _, o := range ph.Objs {
				p.Objects = append(p.Objects, r.BuildObject(o, s.Cluster))
			}
		}
		ts.Phases = append(ts.Phases, p)
	}
	return ts
}

// SetKind returns the kind name for the flavour.
func setKind(cluster bool, base string) string {
	if cluster {
		return "Cluster" + base
	}
	return base
}

// CreateSet creates a hand-made ObjectSet as the user.
func (r *Runner) CreateSet(s SetSpec) error {
	name := s.Name
	if name == "" {
		name = "os-" + strconv.Itoa(len(r.Sets))
	}
	ns := engine.NSMain
	if s.Cluster {
		ns = ""
	}
	sliceNames := map[int][]string{}
	var err error
	r.W.ActAs("user", func(c client.Client) {
		for i, ph := range s.Phases {
			if !ph.Sliced || len(ph.Objs) == 0 {
				continue
			}
			// split the phase into up to two slices to exercise concatenation order
			cut := (len(ph.Objs) + 1) / 2
			parts := [][]ObjSpec{ph.Objs[:cut], ph.Objs[cut:]}
			for pi, part := range parts {
				if len(part) == 0 {
					continue
				}
				sl := &unstructured.Unstructured{Object: map[string]any{}}
				sl.SetGroupVersionKind(corev1alpha1.GroupVersion.WithKind(setKind(s.Cluster, "ObjectSlice")))
				sl.SetName(fmt.Sprintf("%s-%s-slice%d", name, ph.Name, pi))
				sl.SetNamespace(ns)
				var objs []any
				for _, o := range part {
					oso := r.BuildObject(o, s.Cluster)
					m, _ := kubesim.Normalize(&oso)
					objs = append(objs, m)
				}
				sl.Object["objects"] = objs
				if e := c.Create(r.W.Ctx, sl); e != nil && !apierrors.IsAlreadyExists(e) {
					err = e
					return
				}
				sliceNames[i] = append(sliceNames[i], sl.GetName())
			}
		}
		var obj client.Object
		ts := r.TemplateSpec(s, sliceNames)
		var prev []corev1alpha1.PreviousRevisionReference
		seen := map[string]bool{}
		for _, pi := range s.Previous {
			if len(r.Sets) == 0 {
				break
			}
			p := r.Sets[mod(pi, len(r.Sets))]
			if p.Cluster != s.Cluster || seen[p.Name] {
				continue
			}
			seen[p.Name] = true
			prev = append(prev, corev1alpha1.PreviousRevisionReference{Name: p.Name})
		}
		lifecycle := corev1alpha1.ObjectSetLifecycleState("")
		if s.Paused {
			lifecycle = corev1alpha1.ObjectSetLifecycleStatePaused
		}
		labels := map[string]string{}
		if s.PkgLabel != "" {
			labels["package-operator.run/package"] = s.PkgLabel
		}
		if s.Cluster {
			o := &corev1alpha1.ClusterObjectSet{}
			o.Name = name
			o.Labels = labels
			o.Spec.ObjectSetTemplateSpec = ts
			o.Spec.Previous = prev
			o.Spec.LifecycleState = lifecycle
			obj = o
		} else {
			o := &corev1alpha1.ObjectSet{}
			o.Name = name
			o.Namespace = ns
			o.Labels = labels
			o.Spec.ObjectSetTemplateSpec = ts
			o.Spec.Previous = prev
			o.Spec.LifecycleState = lifecycle
			obj = o
		}
		if e := c.Create(r.W.Ctx, obj); e != nil {
			err = e
			return
		}
		r.Sets = append(r.Sets, &SetInfo{Name: name, Cluster: s.Cluster, Spec: s, UID: string(obj.GetUID())})
	})
	return err
}

// ---- actors ----------------------------------------------------------------

// WidgetStates names the workload status shapes.
var WidgetStates = []string{"none", "ready", "ready-stale", "notready", "cond-stale", "ready-nogen"}

// SetWidgetStatus acts as the workload controller.
func (r *Runner) SetWidgetStatus(key kubesim.Key, state string) {
	r.W.ActAs("workload", func(c client.Client) {
		cur := r.W.Store.Peek(key)
		if cur == nil {
			return
		}
		gen := engine.Generation(cur)
		size := int64(0)
		if sp, ok := cur["spec"].(map[string]any); ok {
			size, _ = sp["size"].(int64)
		}
		var st map[string]any
		cond := func(status string, og int64, withOG bool) map[string]any {
			m := map[string]any{"type": "Available", "status": status, "reason": "R", "message": "m"}
			if withOG {
				m["observedGeneration"] = og
			}
			return m
		}
		switch state {
		case "none":
			st = nil
		case "ready":
			st = map[string]any{"observedGeneration": gen, "phase": "Ready", "ready": size, "conditions": []any{cond("True", gen, true)}}
		case "ready-stale":
			st = map[string]any{"observedGeneration": gen - 1, "phase": "Ready", "ready": size, "conditions": []any{cond("True", gen-1, true)}}
		case "notready":
			st = map[string]any{"observedGeneration": gen, "phase": "Pending", "ready": size + 1, "conditions": []any{cond("False", gen, true)}}
		case "cond-stale":
			st = map[string]any{"phase": "Ready", "ready": size, "conditions": []any{cond("True", gen-1, true)}}
		case "ready-nogen":
			st = map[string]any{"phase": "Ready", "ready": size, "conditions": []any{cond("True", 0, false)}}
		}
		u := engine.U(cur)
		if st == nil {
			delete(u.Object, "status")
		} else {
			u.Object["status"] = st
		}
		_ = c.Status().Update(r.W.Ctx, u)
	})
}

// GC acts as the Kubernetes garbage collector: processes the orphan finalizer and deletes
// dependents whose owners are all gone (background deletion).
func (r *Runner) GC() {
	r.W.ActAs("gc", func(c client.Client) {
		for round := 0; round < 8; round++ {
			changed := false
			uids := map[string]bool{}
			for _, k := range r.W.Store.Keys() {
				uids[engine.UID(r.W.Store.PeekNoCopy(k))] = true
			}
			for _, k := range r.W.Store.Keys() {
				o := r.W.Store.Peek(k)
				if o == nil {
					continue
				}
				// orphan finalizer on a deleting owner: strip its references from dependents
				if kubesim.MetaString(o, "deletionTimestamp") != "" {
					for _, f := range finalizers(o) {
						if f == "orphan" {
							ouid := engine.UID(o)
							for _, dk := range r.W.Store.Keys() {
								d := r.W.Store.Peek(dk)
								refs := engine.OwnerRefs(d)
								var keep []any
								dropped := false
								for _, rf := range refs {
									if rf.UID == ouid {
										dropped = true
										continue
									}
									keep = append(keep, refMap(rf))
								}
								if dropped {
									md := d["metadata"].(map[string]any)
									if len(keep) == 0 {
										delete(md, "ownerReferences")
									} else {
										md["ownerReferences"] = keep
									}
									_ = c.Update(r.W.Ctx, engine.U(d))
									changed = true
								}
							}
							removeFinalizer(o, "orphan")
							_ = c.Update(r.W.Ctx, engine.U(o))
							changed = true
						}
					}
					continue
				}
				refs := engine.OwnerRefs(o)
				if len(refs) == 0 {
					continue
				}
				alive := false
				for _, rf := range refs {
					if uids[rf.UID] {
						alive = true
					}
				}
				if !alive {
					_ = c.Delete(r.W.Ctx, engine.U(o), client.Preconditions{UID: ptr.To(types.UID(engine.UID(o)))})
					changed = true
				}
			}
			if !changed {
				return
			}
		}
	})
}

func refMap(rf engine.Ref) map[string]any {
	m := map[string]any{"apiVersion": rf.APIVersion, "kind": rf.Kind, "name": rf.Name, "uid": rf.UID}
	if rf.Controller {
		m["controller"] = true
		m["blockOwnerDeletion"] = true
	}
	return m
}

func finalizers(o map[string]any) []string {
	md, _ := o["metadata"].(map[string]any)
	l, _ := md["finalizers"].([]any)
	var out []string
	for _, f := range l {
		if s, ok := f.(string); ok {
			out = append(out, s)
		}
	}
	return out
}

func removeFinalizer(o map[string]any, f string) {
	md, _ := o["metadata"].(map[string]any)
	l, _ := md["finalizers"].([]any)
	var keep []any
	for _, x := range l {
		if x != f {
			keep = append(keep, x)
		}
	}
	if len(keep) == 0 {
		delete(md, "finalizers")
	} else {
		md["finalizers"] = keep
	}
}

func addFinalizer(o map[string]any, f string) {
	md, _ := o["metadata"].(map[string]any)
	l, _ := md["finalizers"].([]any)
	for _, x := range l {
		if x == f {
			return
		}
	}
	md["finalizers"] = append(l, f)
}

// ---- PassView ---------------------------------------------------------------

// PassView is the per-pass digest monitors work on.
type PassView struct {
	P        *engine.PassInfo
	Calls    []*kubesim.Call
	OwnerKey kubesim.Key
	// Owner is the owner object as read at the start of the pass (nil if not found).
	Owner map[string]any
	// Observed: last successful response per key in this pass; ObservedMissing: last read said NotFound.
	Observed        map[kubesim.Key]map[string]any
	ObservedMissing map[kubesim.Key]bool
	// StatusWrites on the owner in this pass (successful ones).
	StatusWrites []*kubesim.Call
}

func (r *Runner) buildView(p *engine.PassInfo) *PassView {
	pv := &PassView{P: p, Calls: r.W.Calls(p), Observed: map[kubesim.Key]map[string]any{}, ObservedMissing: map[kubesim.Key]bool{}}
	kind := engine.ControllerKind[p.Controller]
	gvk := schema.GroupVersionKind{Group: engine.PKOGroup, Version: "v1alpha1", Kind: kind}
	pv.OwnerKey, _, _ = r.W.Store.KeyFor(gvk, p.Req.Namespace, p.Req.Name)
	for _, c := range pv.Calls {
		if c.Actor != "pko" {
			continue
		}
		if pv.Owner == nil && c.Verb == "get" && c.Key == pv.OwnerKey && c.Resp != nil {
			pv.Owner = c.Resp
		}
		if c.DryRun {
			continue
		}
		switch {
		case c.Resp != nil && c.Verb != "list":
			pv.Observed[c.Key] = c.Resp
			delete(pv.ObservedMissing, c.Key)
		case c.Verb == "get" && c.ErrReason == string(metav1.StatusReasonNotFound):
			// a cache miss followed by an uncached hit is overwritten by the later response
			if _, had := pv.Observed[c.Key]; !had {
				pv.ObservedMissing[c.Key] = true
			}
			if c.Source == "uncached" {
				delete(pv.Observed, c.Key)
				pv.ObservedMissing[c.Key] = true
			}
		}
		if (c.Verb == "update-status" || c.Verb == "patch-status") && c.Key == pv.OwnerKey && c.Err == "" {
			pv.StatusWrites = append(pv.StatusWrites, c)
		}
	}
	return pv
}

// PoolWrites returns the non-dry-run write calls of the pass by PKO that target non-PKO kinds.
func (pv *PassView) PoolWrites() []*kubesim.Call {
	var out []*kubesim.Call
	for _, c := range pv.Calls {
		if c.Actor == "pko" && c.IsWrite() && !c.DryRun && c.Key.Group != engine.PKOGroup {
			out = append(out, c)
		}
	}
	return out
}

// ---- step execution -----------------------------------------------------------

// ExistingOf lists the keys the named controller reconciles (its kind, any namespace), sorted.
func (r *Runner) ExistingOf(ctrlName string) []kubesim.Key {
	return r.byAge(r.W.ListKeys(engine.PKOGroup, engine.ControllerKind[ctrlName]))
}

// byAge: with Scenario.CreationOrder symbolic object indexes go by age instead of by name: two variants of a scenario whose
// generated names differ (template hashes) then address the same objects with the same step.
func (r *Runner) byAge(keys []kubesim.Key) []kubesim.Key {
	if r.Sc.CreationOrder {
		age := func(k kubesim.Key) int {
			n := 0
			fmt.Sscanf(engine.UID(r.W.Store.PeekNoCopy(k)), "uid-%d", &n)
			return n
		}
		sort.SliceStable(keys, func(i, j int) bool { return age(keys[i]) < age(keys[j]) })
	}
	return keys
}

// Reconcile runs one pass and the monitors.
func (r *Runner) Reconcile(ctrlName string, key kubesim.Key) (*PassView, error) {
	if r.faultKind != kubesim.FaultNone {
		r.Labels["fault-armed"] = true
	}
	r.pullsBefore = map[string]int{}
	for k, v := range r.W.Puller.Pulls {
		r.pullsBefore[k] = v
	}
	p := r.W.RunPass(ctrlName, engine.Req(key.Namespace, key.Name))
	if r.nested == 0 {
		r.faultKind, r.faultDryRunN = kubesim.FaultNone, 0
		r.injN, r.injCount, r.ownerInjN, r.syncInjN = 0, 0, 0, 0
		r.touchInjN, r.touchCount = 0, 0
	}
	if p.Panic != nil {
		return nil, Violf("C19", "panic:"+panicKey(p.PanicStack), "controller %s panicked: %v\n%s", ctrlName, p.Panic, trunc(p.PanicStack, 1800))
	}
	pv := r.buildView(p)
	if r.Sc.Lag {
		for _, c := range pv.Calls {
			if c.Verb == "create" && c.Err == "" && !c.DryRun && (c.Key.Kind == "ObjectSet" || c.Key.Kind == "ClusterObjectSet") {
				r.W.HiddenFromDeploy[c.Key] = true
				r.Labels["lag-window-opened"] = true
			}
		}
	}
	if r.KeepViews {
		r.Views = append(r.Views, pv)
	}
	r.Log = append(r.Log, fmt.Sprintf("pass %d %s %s/%s calls=%d err=%q", p.ID, ctrlName, key.Namespace, key.Name, len(pv.Calls), trunc(p.Err, 80)))
	if r.nested == 0 && r.nestedErr != nil {
		err := r.nestedErr
		r.nestedErr = nil
		return pv, err
	}
	for _, m := range r.Monitors {
		if err := m.AfterPass(r, pv); err != nil {
			return pv, err
		}
	}
	return pv, nil
}

func trunc(s string, n int) string {
	if len(s) > n {
		return s[:n]
	}
	return s
}

// AllControllers is the fair-scheduler order.
var AllControllers = []string{
	engine.CtrlPackage, engine.CtrlClusterPackage,
	engine.CtrlObjectDeployment, engine.CtrlClusterObjectDeployment,
	engine.CtrlObjectSet, engine.CtrlClusterObjectSet,
	engine.CtrlObjectSetPhase, engine.CtrlClusterObjectSetPhase, engine.CtrlRemotePhase,
	engine.CtrlObjectTemplate, engine.CtrlClusterObjectTemplate,
}

// Quiesce runs fair rounds (every controller on every object of its kind, plus GC) until a full
// round changes nothing. Returns rounds used and whether quiescence was reached.
func (r *Runner) Quiesce() (int, bool, error) {
	// disturbances stop: drop armed faults / injections
	r.faultKind, r.faultDryRunN = kubesim.FaultNone, 0
	r.touchInjN = 0
	r.injN, r.ownerInjN, r.syncInjN = 0, 0, 0
	for round := 1; round <= r.MaxQuiesceRounds; round++ {
		before := r.W.Store.RV()
		roundStart := len(r.W.Store.Trace)
		r.SyncCaches()
		for _, cn := range AllControllers {
			if !r.W.HasController(cn) {
				continue
			}
			for _, k := range r.ExistingOf(cn) {
				if _, err := r.Reconcile(cn, k); err != nil {
					return round, false, err
				}
			}
		}
		r.GC()
		r.Kubelet()
		injected := false
		for _, c := range r.W.Store.Trace[roundStart:] {
			if c.Injected {
				injected = true
			}
		}
		// a round disturbed by an injected fault says nothing about quiescence
		if r.W.Store.RV() == before && !injected {
			return round, true, nil
		}
	}
	return r.MaxQuiesceRounds, false, nil
}

// Exec executes one step.
func (r *Runner) Exec(idx int, st Step) error {
	w := r.W
	switch st.Op {
	case "createSet":
		if err := r.CreateSet(*st.Set); err != nil {
			// creation rejected by the API model (e.g. name clash): a no-op step
			r.Log = append(r.Log, "createSet rejected: "+err.Error())
		}
	case "reconcile":
		keys := r.ExistingOf(st.Ctrl)
		if len(keys) == 0 {
			return nil
		}
		_, err := r.Reconcile(st.Ctrl, keys[mod(st.I, len(keys))])
		return err
	case "widget":
		keys := w.ListKeys(engine.WidgetGroup, "Widget")
		if len(keys) == 0 {
			return nil
		}
		r.SetWidgetStatus(keys[mod(st.I, len(keys))], WidgetStates[mod(st.J, len(WidgetStates))])
	case "kubelet":
		r.Kubelet()
	case "sync":
		r.SyncCaches()
	case "gc":
		r.GC()
	case "restart":
		w.Restart()
		r.Labels["restart"] = true
	case "fault":
		kinds := []kubesim.Fault{kubesim.FaultErrorBefore, kubesim.FaultLostResponse, kubesim.FaultCrash, kubesim.FaultCrashAfter,
			kubesim.FaultStatusInternal, kubesim.FaultStatusTooManyRequests, kubesim.FaultStatusUnavailable, kubesim.FaultStatusTimeout}
		r.faultKind = kinds[mod(st.J, len(kinds))]
		r.faultNCall = 1 + mod(st.I, 40)
	case "faultDryRun":
		kinds := []kubesim.Fault{kubesim.FaultErrorBefore, kubesim.FaultStatusInternal, kubesim.FaultStatusTooManyRequests, kubesim.FaultStatusUnavailable, kubesim.FaultStatusTimeout}
		r.faultKind = kinds[mod(st.J, len(kinds))]
		r.faultDryRunN = 1 + mod(st.I, 6)
		r.faultDryRunCount = 0
	case "injectTouch":
		r.touchInjN = 1 + mod(st.I, 6)
		r.touchCount = 0
	case "injectSync":
		r.syncInjN = 2 + mod(st.I, 4)
	case "injectOwnerEdit":
		r.ownerInjN = 2 + mod(st.I, 14)
	case "inject":
		r.injN = 1 + mod(st.I, 6)
		r.injKind = st.J
		r.injPick = st.K
		r.injCount = 0
	case "quiesce":
		_, ok, err := r.Quiesce()
		r.LastQuiesceOK = ok
		if ok {
			r.Labels["quiesced"] = true
		}
		return err
	case "settleSets":
		// the revisions' own controllers (and the cluster's garbage collector) run until nothing changes; deployment and
		// package controllers get no pass: what they see next is a settled set of revisions
		for round := 0; round < r.MaxQuiesceRounds; round++ {
			before := r.W.Store.RV()
			r.SyncCaches()
			for _, cn := range []string{engine.CtrlObjectSet, engine.CtrlClusterObjectSet, engine.CtrlObjectSetPhase, engine.CtrlClusterObjectSetPhase, engine.CtrlRemotePhase} {
				if !r.W.HasController(cn) {
					continue
				}
				for _, k := range r.ExistingOf(cn) {
					if _, err := r.Reconcile(cn, k); err != nil {
						return err
					}
				}
			}
			r.GC()
			r.Kubelet()
			if r.W.Store.RV() == before {
				break
			}
		}
		return nil
	case "tpForeign":
		// pre-existing objects outside the owner's reach: a ConfigMap in the other namespace and a ClusterWidget,
		// optionally carrying a (forged) controller reference to the first ObjectSet
		r.W.ActAs("thirdparty", func(c client.Client) {
			var u unstructured.Unstructured
			switch mod(st.I, 2) {
			case 0:
				u = engine.Desired(engine.PoolObj{GVK: engine.GVKConfigMap, Name: "cm-" + strconv.Itoa(mod(st.I/4, 4)), Namespace: engine.NSOther}, 9)
			case 1:
				u = engine.Desired(engine.PoolObj{GVK: engine.GVKClusterWidget, Name: "cw-" + strconv.Itoa(mod(st.I/4, 2))}, 9)
			}
			if mod(st.I/2, 2) == 1 && len(r.Sets) > 0 {
				if so := r.W.Store.PeekNoCopy(r.setKey(r.Sets[0])); so != nil {
					u.Object["metadata"].(map[string]any)["ownerReferences"] = []any{refMap(engine.Ref{
						APIVersion: "package-operator.run/v1alpha1", Kind: asStr(so["kind"]), Name: r.Sets[0].Name, UID: engine.UID(so), Controller: true})}
					u.SetLabels(map[string]string{constants.DynamicCacheLabel: "True"})
				}
			}
			_ = c.Create(r.W.Ctx, &u)
		})
	case "pausePhase":
		keys := r.byAge(append(r.W.ListKeys(engine.PKOGroup, "ObjectSetPhase"), r.W.ListKeys(engine.PKOGroup, "ClusterObjectSetPhase")...))
		if len(keys) == 0 {
			return nil
		}
		k := keys[mod(st.I, len(keys))]
		r.W.ActAs("user", func(c client.Client) {
			o := r.W.Store.Peek(k)
			if o == nil {
				return
			}
			sp, _ := o["spec"].(map[string]any)
			if st.On {
				sp["paused"] = true
			} else {
				delete(sp, "paused")
			}
			_ = c.Update(r.W.Ctx, engine.U(o))
		})
	case "pauseSet", "archiveSet", "unpauseSet":
		r.userLifecycle(st)
	case "deleteSet":
		r.userDeleteSet(st)
	case "tpDelete", "tpEdit", "tpReady", "tpRelabel", "tpFinalizer", "tpUnfinalize", "tpOwn":
		r.thirdParty(st)
	default:
		if h, ok := extraOps[st.Op]; ok {
			return h(r, st)
		}
		return fmt.Errorf("unknown op %q", st.Op)
	}
	return nil
}

var extraOps = map[string]func(r *Runner, st Step) error{}

func (r *Runner) setKeys() []kubesim.Key {
	keys := r.byAge(append(r.W.ListKeys(engine.PKOGroup, "ObjectSet"), r.W.ListKeys(engine.PKOGroup, "ClusterObjectSet")...))
	return keys
}

func (r *Runner) userLifecycle(st Step) {
	keys := r.setKeys()
	if len(keys) == 0 {
		return
	}
	k := keys[mod(st.I, len(keys))]
	r.W.ActAs("user", func(c client.Client) {
		o := r.W.Store.Peek(k)
		if o == nil {
			return
		}
		sp, _ := o["spec"].(map[string]any)
		if sp == nil {
			sp = map[string]any{}
			o["spec"] = sp
		}
		if sp["lifecycleState"] == "Archived" {
			return // archival is final (webhook/CRD rule)
		}
		switch st.Op {
		case "pauseSet":
			sp["lifecycleState"] = "Paused"
		case "unpauseSet":
			sp["lifecycleState"] = "Active"
		case "archiveSet":
			sp["lifecycleState"] = "Archived"
		}
		_ = c.Update(r.W.Ctx, engine.U(o))
	})
}

func (r *Runner) userDeleteSet(st Step) {
	keys := r.setKeys()
	if len(keys) == 0 {
		return
	}
	k := keys[mod(st.I, len(keys))]
	r.W.ActAs("user", func(c client.Client) {
		o := r.W.Store.Peek(k)
		if o == nil {
			return
		}
		if st.On {
			_ = c.Delete(r.W.Ctx, engine.U(o), client.PropagationPolicy(metav1.DeletePropagationOrphan))
			r.Labels["orphan-delete"] = true
		} else {
			_ = c.Delete(r.W.Ctx, engine.U(o))
		}
	})
}

// poolKey returns the key of pool object i in the main namespace.
func (r *Runner) poolKey(i int) kubesim.Key { return r.poolObj(i).Key(r.W.Store, engine.NSMain) }

func (r *Runner) thirdParty(st Step) {
	k := r.poolKey(st.I)
	r.W.ActAs("thirdparty", func(c client.Client) {
		o := r.W.Store.Peek(k)
		switch st.Op {
		case "tpDelete":
			if o != nil {
				_ = c.Delete(r.W.Ctx, engine.U(o))
			}
		case "tpEdit":
			if o == nil {
				return
			}
			if d, ok := o["data"].(map[string]any); ok {
				d["v"] = "drift"
			} else if sp, ok := o["spec"].(map[string]any); ok {
				sp["size"] = int64(99)
			}
			_ = c.Update(r.W.Ctx, engine.U(o))
		case "tpReady":
			if o == nil {
				return
			}
			if d, ok := o["data"].(map[string]any); ok {
				if st.On {
					d["ready"] = "yes"
				} else {
					delete(d, "ready")
				}
				_ = c.Update(r.W.Ctx, engine.U(o))
			}
		case "tpRelabel":
			if o == nil {
				return
			}
			if l, ok := o["metadata"].(map[string]any)["labels"].(map[string]any); ok {
				delete(l, constants.DynamicCacheLabel)
			}
			_ = c.Update(r.W.Ctx, engine.U(o))
		case "tpFinalizer":
			if o == nil {
				return
			}
			addFinalizer(o, "verif.example/block")
			_ = c.Update(r.W.Ctx, engine.U(o))
		case "tpUnfinalize":
			if o == nil {
				return
			}
			removeFinalizer(o, "verif.example/block")
			_ = c.Update(r.W.Ctx, engine.U(o))
		case "tpOwn":
			r.tpOwn(c, k, o, st)
		}
	})
}

// OwnStates are the ownership states a third party can put an object into.
var OwnStates = []string{"none", "foreign-ctrl", "foreign-owner", "set-ctrl", "set-owner", "stale-set-ctrl", "phase-ctrl"}

// RevStates are the revision annotation choices relative to the referenced set's revision.
var RevStates = []string{"absent", "empty", "lower", "equal", "higher", "garbage"}

// tpOwn creates (or rewrites) pool object st.I in ownership state st.J, revision annotation st.K,
// st.S optionally "pkolabel". The referenced ObjectSet is Sets[st.J / len(OwnStates)].
func (r *Runner) tpOwn(c client.Client, k kubesim.Key, o map[string]any, st Step) {
	state := OwnStates[mod(st.J, len(OwnStates))]
	var ref *SetInfo
	if len(r.Sets) > 0 {
		ref = r.Sets[mod(st.J/len(OwnStates), len(r.Sets))]
	}
	// Forging ownership by an ObjectSet that never reconciled (no finalizer yet) is outside every
	// property's quantifier: such a set rightly assumes it owns nothing.
	if ref != nil && (state == "set-ctrl" || state == "set-owner" || state == "phase-ctrl") {
		so := r.W.Store.PeekNoCopy(r.setKey(ref))
		if so == nil || !hasFinalizerStr(so, constants.CachedFinalizer) {
			return
		}
	}
	creating := o == nil
	if creating {
		p := r.poolObj(st.I)
		u := engine.Desired(p, 7)
		u.SetNamespace(engine.NSMain)
		o = u.Object
	}
	md := o["metadata"].(map[string]any)
	var refs []any
	setRef := func(ctrl bool, stale bool) {
		if ref == nil {
			return
		}
		sk := r.setKey(ref)
		so := r.W.Store.PeekNoCopy(sk)
		uid := ref.UID
		if so != nil {
			uid = engine.UID(so)
		}
		if stale {
			uid = "stale-" + uid
		}
		refs = append(refs, refMap(engine.Ref{APIVersion: "package-operator.run/v1alpha1", Kind: sk.Kind, Name: ref.Name, UID: uid, Controller: ctrl}))
	}
	switch state {
	case "none":
	case "foreign-ctrl":
		refs = append(refs, refMap(engine.Ref{APIVersion: "apps/v1", Kind: "Deployment", Name: "foreign", UID: "foreign-1", Controller: true}))
	case "foreign-owner":
		refs = append(refs, refMap(engine.Ref{APIVersion: "apps/v1", Kind: "Deployment", Name: "foreign", UID: "foreign-1"}))
	case "set-ctrl":
		setRef(true, false)
	case "set-owner":
		setRef(false, false)
	case "stale-set-ctrl":
		setRef(true, true)
	case "phase-ctrl":
		// controller = an ObjectSetPhase of the referenced set, if one exists
		if ref != nil {
			for _, pk := range r.W.ListKeys(engine.PKOGroup, setKind(ref.Cluster, "ObjectSetPhase")) {
				po := r.W.Store.PeekNoCopy(pk)
				if cr, ok := engine.ControllerRef(po); ok && cr.Name == ref.Name {
					refs = append(refs, refMap(engine.Ref{APIVersion: "package-operator.run/v1alpha1", Kind: pk.Kind, Name: pk.Name, UID: engine.UID(po), Controller: true}))
					break
				}
			}
		}
	}
	if len(refs) == 0 {
		delete(md, "ownerReferences")
	} else {
		md["ownerReferences"] = refs
	}
	ann, _ := md["annotations"].(map[string]any)
	if ann == nil {
		ann = map[string]any{}
	}
	base := int64(1)
	if ref != nil {
		if so := r.W.Store.PeekNoCopy(r.setKey(ref)); so != nil {
			if stt, ok := so["status"].(map[string]any); ok {
				if rv, ok := stt["revision"].(int64); ok && rv > 0 {
					base = rv
				}
			}
		}
	}
	switch RevStates[mod(st.K, len(RevStates))] {
	case "absent":
		delete(ann, corev1alpha1.ObjectSetRevisionAnnotation)
	case "empty":
		ann[corev1alpha1.ObjectSetRevisionAnnotation] = ""
	case "lower":
		ann[corev1alpha1.ObjectSetRevisionAnnotation] = strconv.FormatInt(base-1, 10)
	case "equal":
		ann[corev1alpha1.ObjectSetRevisionAnnotation] = strconv.FormatInt(base, 10)
	case "higher":
		ann[corev1alpha1.ObjectSetRevisionAnnotation] = strconv.FormatInt(base+1, 10)
	case "garbage":
		ann[corev1alpha1.ObjectSetRevisionAnnotation] = "not-a-number"
	}
	if len(ann) > 0 {
		md["annotations"] = ann
	}
	lbl, _ := md["labels"].(map[string]any)
	if lbl == nil {
		lbl = map[string]any{}
	}
	switch st.S {
	case "pkolabel":
		lbl["package-operator.run/package"] = "package-operator"
	case "otherlabel":
		lbl["package-operator.run/package"] = "other"
	case "nocache":
		delete(lbl, constants.DynamicCacheLabel)
	}
	md["labels"] = lbl
	if creating {
		_ = c.Create(r.W.Ctx, engine.U(o))
	} else {
		_ = c.Update(r.W.Ctx, engine.U(o))
	}
}

func (r *Runner) setKey(s *SetInfo) kubesim.Key {
	ns := engine.NSMain
	if s.Cluster {
		ns = ""
	}
	return kubesim.Key{Group: engine.PKOGroup, Kind: setKind(s.Cluster, "ObjectSet"), Namespace: ns, Name: s.Name}
}

// Run executes all steps; returns the first violation.
func (r *Runner) Run() error {
	for i, st := range r.Sc.Steps {
		if err := r.Exec(i, st); err != nil {
			return err
		}
		for _, m := range r.Monitors {
			if sm, ok := m.(StepMonitor); ok {
				if err := sm.AfterStep(r, i, st); err != nil {
					return err
				}
			}
		}
	}
	return nil
}

// LabelList returns the sorted label set.
func (r *Runner) LabelList() []string {
	var out []string
	for l := range r.Labels {
		out = append(out, l)
	}
	sort.Strings(out)
	return out
}

// ReplayScenario decodes and runs a scenario file with the given monitors factory.
func ReplayScenario(data []byte, mk func(sc *Scenario) *Runner) (any, error) {
	var sc Scenario
	if err := json.Unmarshal(data, &sc); err != nil {
		return nil, err
	}
	r := mk(&sc)
	return &sc, r.Run()
}

// InjectKinds names the third-party actions that can be injected between PKO's read and its write.
var InjectKinds = []string{"reown-foreign", "recreate", "edit", "add-owner", "delete", "strip-owners"}

// InjectOtherControllerPass is not a third-party action: between the running pass's read of an object and its write, a
// *different* PKO controller (each has its own single worker) reconciles another owner that lists the same object.
const InjectOtherControllerPass = 100

// specLists reports whether the JSON tree contains an object manifest of the key's kind and name.
func specLists(v any, k kubesim.Key) bool {
	switch x := v.(type) {
	case map[string]any:
		if kind, _ := x["kind"].(string); kind == k.Kind {
			if md, _ := x["metadata"].(map[string]any); md != nil {
				if n, _ := md["name"].(string); n == k.Name {
					return true
				}
			}
		}
		for _, e := range x {
			if specLists(e, k) {
				return true
			}
		}
	case []any:
		for _, e := range x {
			if specLists(e, k) {
				return true
			}
		}
	}
	return false
}

// nestedPassOn runs one reconcile pass of another controller for an owner that lists k, inside the running pass.
func (r *Runner) nestedPassOn(k kubesim.Key) {
	if r.nested > 0 || len(r.W.Passes) == 0 {
		return
	}
	cur := r.W.Passes[len(r.W.Passes)-1]
	type cand struct {
		ctrl string
		key  kubesim.Key
	}
	var cands []cand
	for _, cn := range []string{engine.CtrlObjectSet, engine.CtrlClusterObjectSet, engine.CtrlObjectSetPhase, engine.CtrlClusterObjectSetPhase, engine.CtrlRemotePhase} {
		if cn == cur.Controller {
			continue // one worker per controller: it cannot run two passes at once
		}
		for _, ok := range r.ExistingOf(cn) {
			o := r.W.Store.PeekNoCopy(ok)
			if o == nil || !specLists(o["spec"], k) {
				continue
			}
			cands = append(cands, cand{cn, ok})
		}
	}
	if len(cands) == 0 {
		return
	}
	c := cands[mod(r.injPick, len(cands))]
	r.Labels["other-controller-pass-inside-pass"] = true
	r.nested++
	_, err := r.Reconcile(c.ctrl, c.key)
	r.nested--
	if err != nil && r.nestedErr == nil {
		r.nestedErr = err
	}
}

// injectOn performs a third-party action on key k (called from inside a pass, right before PKO's write on k).
func (r *Runner) injectOn(k kubesim.Key, kind int) {
	r.Labels["injected"] = true
	if kind == InjectOtherControllerPass {
		r.nestedPassOn(k)
		return
	}
	r.W.ActAs("thirdparty", func(c client.Client) {
		o := r.W.Store.Peek(k)
		if o == nil {
			return
		}
		md := o["metadata"].(map[string]any)
		switch InjectKinds[mod(kind, len(InjectKinds))] {
		case "reown-foreign":
			var refs []any
			for _, rf := range engine.OwnerRefs(o) {
				if rf.UID == "foreign-1" {
					continue
				}
				rf.Controller = false
				refs = append(refs, refMap(rf))
			}
			refs = append(refs, refMap(engine.Ref{APIVersion: "apps/v1", Kind: "Deployment", Name: "foreign", UID: "foreign-1", Controller: true}))
			md["ownerReferences"] = refs
			_ = c.Update(r.W.Ctx, engine.U(o))
		case "recreate":
			fins := finalizers(o)
			if len(fins) > 0 {
				delete(md, "finalizers")
				_ = c.Update(r.W.Ctx, engine.U(o))
			}
			_ = c.Delete(r.W.Ctx, engine.U(o))
			n := kubesim.DeepCopyJSON(o)
			nmd := n["metadata"].(map[string]any)
			for _, f := range []string{"uid", "resourceVersion", "creationTimestamp", "deletionTimestamp", "deletionGracePeriodSeconds", "generation", "finalizers"} {
				delete(nmd, f)
			}
			_ = c.Create(r.W.Ctx, engine.U(n))
		case "edit":
			ann, _ := md["annotations"].(map[string]any)
			if ann == nil {
				ann = map[string]any{}
			}
			ann["verif.example/touched"] = "yes"
			md["annotations"] = ann
			_ = c.Update(r.W.Ctx, engine.U(o))
		case "add-owner":
			refs, _ := md["ownerReferences"].([]any)
			refs = append(refs, refMap(engine.Ref{APIVersion: "apps/v1", Kind: "Deployment", Name: "late-owner", UID: "late-1"}))
			md["ownerReferences"] = refs
			_ = c.Update(r.W.Ctx, engine.U(o))
		case "delete":
			_ = c.Delete(r.W.Ctx, engine.U(o))
		case "strip-owners":
			delete(md, "ownerReferences")
			_ = c.Update(r.W.Ctx, engine.U(o))
		}
	})
}

func hasFinalizerStr(o map[string]any, f string) bool {
	for _, x := range finalizers(o) {
		if x == f {
			return true
		}
	}
	return false
}

// toggleOwnerPause edits the spec of the object the running pass reconciles (generation bump) as the user.
func (r *Runner) toggleOwnerPause(passID int) {
	if len(r.W.Passes) == 0 {
		return
	}
	p := r.W.Passes[len(r.W.Passes)-1]
	kind := engine.ControllerKind[p.Controller]
	if kind != "ObjectSet" && kind != "ClusterObjectSet" {
		return
	}
	k := kubesim.Key{Group: engine.PKOGroup, Kind: kind, Namespace: p.Req.Namespace, Name: p.Req.Name}
	r.W.ActAs("user", func(c client.Client) {
		o := r.W.Store.Peek(k)
		if o == nil {
			return
		}
		sp, _ := o["spec"].(map[string]any)
		if sp == nil || sp["lifecycleState"] == "Archived" {
			return
		}
		if sp["lifecycleState"] == "Paused" {
			sp["lifecycleState"] = "Active"
		} else {
			sp["lifecycleState"] = "Paused"
		}
		if c.Update(r.W.Ctx, engine.U(o)) == nil {
			r.Labels["owner-edited-in-pass"] = true
		}
	})
}

// SyncCaches closes the create-not-yet-visible window of the deployment controller's reader.
func (r *Runner) SyncCaches() {
	for k := range r.W.HiddenFromDeploy {
		delete(r.W.HiddenFromDeploy, k)
	}
}

// KeysAt lists the keys of a kind that existed just before trace index idx.
func (r *Runner) KeysAt(group, kind string, idx int) []kubesim.Key {
	seen := map[kubesim.Key]bool{}
	var out []kubesim.Key
	tr := r.W.Store.Trace
	if idx > len(tr) {
		idx = len(tr)
	}
	for i := 0; i < idx; i++ {
		c := tr[i]
		if c.Key.Group == group && c.Key.Kind == kind && c.IsWrite() && !c.DryRun && !seen[c.Key] {
			seen[c.Key] = true
			out = append(out, c.Key)
		}
	}
	var live []kubesim.Key
	for _, k := range out {
		if r.StateAt(k, idx) != nil {
			live = append(live, k)
		}
	}
	sort.Slice(live, func(i, j int) bool { return live[i].String() < live[j].String() })
	return live
}

// Kubelet finishes the graceful termination of objects without finalizers.
func (r *Runner) Kubelet() {
	for _, k := range r.W.Store.Keys() {
		if r.W.Store.Graceful[schema.GroupKind{Group: k.Group, Kind: k.Kind}] {
			if r.W.Store.FinishTermination(k) {
				r.Labels["graceful-termination-finished"] = true
			}
		}
	}
}

// panicKey extracts the first frame inside package-operator.run from a panic's stack as identity.
func panicKey(stack string) string {
	lines := strings.Split(stack, "\n")
	for i, l := range lines {
		if strings.HasPrefix(l, "package-operator.run/") && !strings.Contains(l, "verifharness") && i+1 < len(lines) {
			fn := l
			if j := strings.LastIndex(fn, "("); j > 0 && fn[j-1] != '.' {
				fn = fn[:j]
			}
			fn = strings.TrimPrefix(fn, "package-operator.run/")
			return fn
		}
	}
	return "unknown-frame"
}
