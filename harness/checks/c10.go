package checks

import (
	"fmt"
	"sort"

	"package-operator.run/verifharness/engine"
	"package-operator.run/verifharness/kubesim"
)

// projectEndState is the end-state projection C10 compares: managed objects with owners, revisions and
// content; which revisions exist / are active / archived; condition statuses of all PKO objects.
func projectEndState(r *Runner) map[string]any {
	out := map[string]any{}
	for _, k := range r.W.Store.Keys() {
		o := r.W.Store.PeekNoCopy(k)
		if k.Kind == "Namespace" {
			continue
		}
		if k.Group != engine.PKOGroup {
			var owners []string
			for _, rf := range engine.OwnerRefs(o) {
				// demoted (plain) owner references of older PKO revisions only record who created the object
				// first; after a repair (object re-created by the newer revision) they are legitimately absent
				if !rf.Controller && engine.GroupOfAPIVersion(rf.APIVersion) == engine.PKOGroup {
					continue
				}
				owners = append(owners, fmt.Sprintf("%s/%s ctrl=%v", rf.Kind, rf.Name, rf.Controller))
			}
			sort.Strings(owners)
			rev, _, _ := engine.RevisionOf(o)
			out[k.String()] = map[string]any{"owners": owners, "rev": rev, "data": o["data"], "spec": o["spec"], "labels": kubesim.LabelsOf(o),
				"deleting": kubesim.MetaString(o, "deletionTimestamp") != ""}
			continue
		}
		conds := map[string]string{}
		for t, c := range engine.Conditions(o) {
			conds[t] = c.Status
		}
		p := map[string]any{"conds": conds, "deleting": kubesim.MetaString(o, "deletionTimestamp") != "", "finalizers": finalizers(o)}
		switch k.Kind {
		case "ObjectSet", "ClusterObjectSet":
			p["lifecycle"] = lifecycleOf(o)
			p["revision"] = asMap(o["status"])["revision"]
			var co []string
			for _, e := range controllerOfList(asMap(o["status"])) {
				co = append(co, e.Group+"/"+e.Kind+"/"+e.Namespace+"/"+e.Name)
			}
			sort.Strings(co)
			p["controllerOf"] = co
			p["template"] = templateFP(asMap(o["spec"]))
		case "ObjectSetPhase", "ClusterObjectSetPhase":
			p["paused"] = asMap(o["spec"])["paused"]
			p["revision"] = asMap(o["spec"])["revision"]
		case "ObjectDeployment", "ClusterObjectDeployment":
			p["templateHash"] = asMap(o["status"])["templateHash"]
			p["revision"] = asMap(o["status"])["revision"]
			p["paused"] = asMap(o["spec"])["paused"]
		case "Package", "ClusterPackage":
			p["unpacked"] = asStr(asMap(o["status"])["unpackedHash"]) != ""
			p["revision"] = asMap(o["status"])["revision"]
		case "ObjectSlice", "ClusterObjectSlice":
			p = map[string]any{"exists": true}
		}
		out[k.String()] = p
	}
	return out
}

// C10Disturbance describes what is injected into a run of a script.
type C10Disturbance struct {
	// Faults: at the g-th PKO API call of the run (1-based, counted over all passes) inject Kind.
	Faults []C10Fault `json:"faults,omitempty"`
	// Drift: before script step index At (after the preceding quiesce) apply a third-party step.
	Drift []C10Drift `json:"drift,omitempty"`
}

type C10Fault struct {
	Call int `json:"call"`
	Kind int `json:"kind"` // 0 error-before, 1 lost response, 2 crash before, 3 crash after
}

type C10Drift struct {
	At   int  `json:"at"`
	Step Step `json:"step"`
}

type c10Case struct {
	Part   string         `json:"part"`
	Script *Scenario      `json:"script"`
	Dist   C10Disturbance `json:"disturbance"`
}

type c10Result struct {
	proj      map[string]any
	calls     int
	quiescent bool
	writeCall map[int]bool // which global call ordinals were state-changing writes (reference run only)
	labels    map[string]bool
}

var c10FaultKinds = []kubesim.Fault{kubesim.FaultErrorBefore, kubesim.FaultLostResponse, kubesim.FaultCrash, kubesim.FaultCrashAfter}

// runC10 executes the script with the disturbance and then lets the fair scheduler run to quiescence.
func runC10(script *Scenario, d C10Disturbance) (*c10Result, error) {
	r := NewRunner(script)
	r.MaxQuiesceRounds = 30
	res := &c10Result{writeCall: map[int]bool{}, labels: r.Labels}
	global := 0
	faultAt := map[int]int{}
	for _, f := range d.Faults {
		faultAt[f.Call] = f.Kind
	}
	r.W.Store.BeforeCall = func(c *kubesim.Call) kubesim.Fault {
		if c.Actor != "pko" {
			return kubesim.FaultNone
		}
		global++
		if k, ok := faultAt[global]; ok {
			delete(faultAt, global)
			r.Labels["fault-fired"] = true
			if c.IsWrite() && !c.DryRun {
				r.Labels["fault-on-write"] = true
			}
			return c10FaultKinds[mod(k, len(c10FaultKinds))]
		}
		return kubesim.FaultNone
	}
	driftAt := map[int][]Step{}
	for _, dr := range d.Drift {
		driftAt[dr.At] = append(driftAt[dr.At], dr.Step)
	}
	for i, st := range script.Steps {
		for _, ds := range driftAt[i] {
			before := r.W.Store.RV()
			if err := r.Exec(i, ds); err != nil {
				return nil, err
			}
			if r.W.Store.RV() != before {
				r.Labels["drift-changed-state"] = true
			}
		}
		if err := r.Exec(i, st); err != nil {
			return nil, err
		}
	}
	// disturbances stop
	r.W.Store.BeforeCall = func(c *kubesim.Call) kubesim.Fault {
		if c.Actor == "pko" {
			global++
		}
		return kubesim.FaultNone
	}
	_, ok, err := r.Quiesce()
	if err != nil {
		return nil, err
	}
	res.quiescent = ok
	res.calls = global
	n := 0
	for _, c := range r.W.Store.Trace {
		if c.Actor == "pko" && c.Pass != 0 {
			n++
			if c.Changed() {
				res.writeCall[n] = true
			}
		}
	}
	res.proj = projectEndState(r)
	if ok {
		// one more full round must change nothing
		before := r.W.Store.RV()
		writes := 0
		from := len(r.W.Store.Trace)
		if _, _, err := r.Quiesce(); err != nil {
			return nil, err
		}
		for _, c := range r.W.Store.Trace[from:] {
			if c.Actor == "pko" && c.Changed() {
				writes++
			}
		}
		if r.W.Store.RV() != before || writes > 0 {
			return res, Violf("C10", "not-stable-at-quiescence", "after reaching quiescence another full round of reconciles performed %d state-changing writes", writes)
		}
	}
	return res, nil
}

// checkC10 compares a disturbed run with the reference run of the same script.
func checkC10(ref, got *c10Result) error {
	if !ref.quiescent {
		return fmt.Errorf("reference run did not reach quiescence")
	}
	if !got.quiescent {
		return Violf("C10", "no-convergence", "after the disturbances stopped the controllers did not reach quiescence within the round bound (state still changing)")
	}
	if !kubesim.JSONEqual(mustNorm(ref.proj), mustNorm(got.proj)) {
		return Violf("C10", "end-state-differs-from-undisturbed-run", "the end state differs from the undisturbed run: %s", firstDiff(ref.proj, got.proj))
	}
	return nil
}
