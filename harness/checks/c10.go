package checks

import (
	"fmt"
	"sort"
	"strings"
	"time"

	"package-operator.run/verifharness/engine"
	"package-operator.run/verifharness/kubesim"
)

// projectEndState is the end-state projection C10 compares: managed objects with owners, revisions and
// content; which revisions exist / are active / archived; condition statuses of all PKO objects.
func projectEndState(r *Runner) map[string]any {
	out := map[string]any{}
	for _, k := range r.W.Store.Keys() {
		o := r.W.Store.PeekNoCopy(k)
		if k.Kind == "Namespace" {
			continue
		}
		if k.Group != engine.PKOGroup {
			var owners []string
			for _, rf := range engine.OwnerRefs(o) {
				// demoted (plain) owner references of older PKO revisions only record who created the object
				// first; after a repair (object re-created by the newer revision) they are legitimately absent
				if !rf.Controller && engine.GroupOfAPIVersion(rf.APIVersion) == engine.PKOGroup {
					continue
				}
				owners = append(owners, fmt.Sprintf("%s/%s ctrl=%v", rf.Kind, rf.Name, rf.Controller))
			}
			sort.Strings(owners)
			rev, _, _ := engine.RevisionOf(o)
			out[k.String()] = map[string]any{"owners": owners, "rev": rev, "data": o["data"], "spec": o["spec"], "labels": kubesim.LabelsOf(o),
				"deleting": kubesim.MetaString(o, "deletionTimestamp") != ""}
			continue
		}
		conds := map[string]string{}
		for t, c := range engine.Conditions(o) {
			if strings.Contains(t, "/") && c.ObservedGeneration != engine.Generation(o) {
				// a mapped condition copied for an earlier generation of the object and not refreshed since says nothing
				// about its current generation: whether such a leftover exists is history, not end state
				continue
			}
			conds[t] = c.Status
		}
		if conds["Archived"] == "True" {
			// C06: InTransition may only be cleared by a pass that saw everything under control; a revision archived in the
			// middle of (re-)taking over its objects therefore keeps InTransition=True for good. Whether that was the case at
			// the moment of archival is history, not desired state: not part of the end state compared here.
			delete(conds, "InTransition")
			// Succeeded records that the revision was seen Available (and not in transition) at least once before it was
			// replaced: whether that happened depends on when the workload became ready relative to the disturbances (a
			// third party deleting the workload right before the successor arrives) - history as well
			delete(conds, "Succeeded")
		}
		p := map[string]any{"conds": conds, "deleting": kubesim.MetaString(o, "deletionTimestamp") != "", "finalizers": finalizers(o)}
		switch k.Kind {
		case "ObjectSet", "ClusterObjectSet":
			p["lifecycle"] = lifecycleOf(o)
			p["revision"] = asMap(o["status"])["revision"]
			var co []string
			for _, e := range controllerOfList(asMap(o["status"])) {
				co = append(co, e.Group+"/"+e.Kind+"/"+e.Namespace+"/"+e.Name)
			}
			sort.Strings(co)
			p["controllerOf"] = co
			p["template"] = templateFP(asMap(o["spec"]))
		case "ObjectSetPhase", "ClusterObjectSetPhase":
			p["paused"] = asMap(o["spec"])["paused"]
			p["revision"] = asMap(o["spec"])["revision"]
		case "ObjectDeployment", "ClusterObjectDeployment":
			p["templateHash"] = asMap(o["status"])["templateHash"]
			p["revision"] = asMap(o["status"])["revision"]
			p["paused"] = asMap(o["spec"])["paused"]
		case "Package", "ClusterPackage":
			p["unpacked"] = asStr(asMap(o["status"])["unpackedHash"]) != ""
			p["revision"] = asMap(o["status"])["revision"]
		case "ObjectSlice", "ClusterObjectSlice":
			p = map[string]any{"exists": true}
		}
		out[k.String()] = p
	}
	return out
}

// C10Disturbance describes what is injected into a run of a script.
type C10Disturbance struct {
	// Faults: at the g-th PKO API call of the run (1-based, counted over all passes) inject Kind.
	Faults []C10Fault `json:"faults,omitempty"`
	// Drift: before script step index At (after the preceding quiesce) apply a third-party step.
	Drift []C10Drift `json:"drift,omitempty"`
	// IdleMs: after quiescence the cluster is left alone for this long before the final "changes nothing" round
	// (the round then happens at a later wall-clock second than the writes before it).
	IdleMs int `json:"idleMs,omitempty"`
}

type C10Fault struct {
	Call int `json:"call"`
	Kind int `json:"kind"` // 0 error-before, 1 lost response, 2 crash before, 3 crash after, 4 concurrent write on the object
}

// C10ConcurrentWrite is the fault kind "a third party updates the PKO object right before PKO's own write on it".
const C10ConcurrentWrite = 4

type C10Drift struct {
	At   int  `json:"at"`
	Step Step `json:"step"`
}

type c10Case struct {
	Part   string         `json:"part"`
	Script *Scenario      `json:"script"`
	Dist   C10Disturbance `json:"disturbance"`
}

type c10Result struct {
	proj      map[string]any
	calls     int
	quiescent bool
	writeCall map[int]bool // which global call ordinals were state-changing writes (reference run only)
	// ownWrite: which call ordinals were writes on PKO's own API objects that carry the version read (update, patch,
	// update-status): the calls a concurrent writer can make fail with a conflict
	ownWrite map[int]bool
	labels    map[string]bool
}

// c10DebugDump makes runC10 print the trace and the PKO objects at the end (development aid, see TestDebugC10).
var c10DebugDump bool

var c10FaultKinds = []kubesim.Fault{kubesim.FaultErrorBefore, kubesim.FaultLostResponse, kubesim.FaultCrash, kubesim.FaultCrashAfter}

// runC10 executes the script with the disturbance and then lets the fair scheduler run to quiescence.
func runC10(script *Scenario, d C10Disturbance) (*c10Result, error) {
	r := NewRunner(script)
	r.MaxQuiesceRounds = 30
	res := &c10Result{writeCall: map[int]bool{}, ownWrite: map[int]bool{}, labels: r.Labels}
	global := 0
	faultAt := map[int]int{}
	for _, f := range d.Faults {
		faultAt[f.Call] = f.Kind
	}
	r.W.Store.BeforeCall = func(c *kubesim.Call) kubesim.Fault {
		if c.Actor != "pko" {
			return kubesim.FaultNone
		}
		global++
		if k, ok := faultAt[global]; ok && k == C10ConcurrentWrite {
			// somebody else writes the PKO object this call is about to write (another controller's status update, a user's
			// annotation): the call itself is not tampered with and fails with a conflict if it carries the version it read
			delete(faultAt, global)
			if !c.DryRun && c.Key.Group == engine.PKOGroup && (c.Verb == "update" || c.Verb == "patch" || c.Verb == "update-status") {
				r.touchObject(c.Key)
				r.Labels["fault-fired"], r.Labels["fault-on-write"] = true, true
			}
			return kubesim.FaultNone
		}
		if k, ok := faultAt[global]; ok {
			delete(faultAt, global)
			r.Labels["fault-fired"] = true
			if c.IsWrite() && !c.DryRun {
				r.Labels["fault-on-write"] = true
			}
			return c10FaultKinds[mod(k, len(c10FaultKinds))]
		}
		return kubesim.FaultNone
	}
	driftAt := map[int][]Step{}
	for _, dr := range d.Drift {
		driftAt[dr.At] = append(driftAt[dr.At], dr.Step)
	}
	for i, st := range script.Steps {
		for _, ds := range driftAt[i] {
			before := r.W.Store.RV()
			if err := r.Exec(i, ds); err != nil {
				return nil, err
			}
			if r.W.Store.RV() != before {
				r.Labels["drift-changed-state"] = true
			}
		}
		if err := r.Exec(i, st); err != nil {
			return nil, err
		}
	}
	// disturbances stop
	r.W.Store.BeforeCall = func(c *kubesim.Call) kubesim.Fault {
		if c.Actor == "pko" {
			global++
		}
		return kubesim.FaultNone
	}
	_, ok, err := r.Quiesce()
	if err != nil {
		return nil, err
	}
	// The workload side converges too: the scripted "widget" / "tpReady" steps stand for workload controllers, which would
	// report status again on objects PKO had to re-create while repairing (a one-shot step before the repair is lost with
	// the deleted object). Re-assert the last scripted state of every index and settle again, twice.
	lastWidget, lastReady := map[int]int{}, map[int]bool{}
	var widgetOrder, readyOrder []int
	for _, st := range script.Steps {
		switch st.Op {
		case "widget":
			if _, seen := lastWidget[st.I]; !seen {
				widgetOrder = append(widgetOrder, st.I)
			}
			lastWidget[st.I] = st.J
		case "tpReady":
			if _, seen := lastReady[st.I]; !seen {
				readyOrder = append(readyOrder, st.I)
			}
			lastReady[st.I] = st.On
		}
	}
	// (the scripted steps address workloads by position; when they all ask for the same state the workload controller they
	// stand for reports that state on every workload there is - otherwise which object a position names would depend on
	// what the disturbances deleted or re-created)
	uniform, common := len(widgetOrder) > 0, 0
	for n, i := range widgetOrder {
		if n == 0 {
			common = lastWidget[i]
		} else if lastWidget[i] != common {
			uniform = false
		}
	}
	// (a workload controller keeps reporting: rounds go on while a round still had something to report, within a bound)
	for round := 0; round < 6 && ok; round++ {
		rvBefore := r.W.Store.RV()
		if round >= 2 && !uniform {
			break
		}
		if uniform {
			for _, k := range r.W.ListKeys(engine.WidgetGroup, "Widget") {
				r.SetWidgetStatus(k, WidgetStates[mod(common, len(WidgetStates))])
			}
		}
		for _, i := range widgetOrder {
			if uniform {
				break
			}
			if err := r.Exec(len(script.Steps), Step{Op: "widget", I: i, J: lastWidget[i]}); err != nil {
				return nil, err
			}
		}
		for _, i := range readyOrder {
			if err := r.Exec(len(script.Steps), Step{Op: "tpReady", I: i, On: lastReady[i]}); err != nil {
				return nil, err
			}
		}
		reported := r.W.Store.RV() != rvBefore
		if _, ok, err = r.Quiesce(); err != nil {
			return nil, err
		}
		if round >= 1 && !reported {
			break
		}
	}
	res.quiescent = ok
	res.calls = global
	n := 0
	for _, c := range r.W.Store.Trace {
		if c.Actor == "pko" && c.Pass != 0 {
			n++
			if c.Changed() {
				res.writeCall[n] = true
			}
			if !c.DryRun && c.Key.Group == engine.PKOGroup && (c.Verb == "update" || c.Verb == "patch" || c.Verb == "update-status") {
				res.ownWrite[n] = true
			}
		}
	}
	res.proj = projectEndState(r)
	if c10DebugDump {
		for _, c := range r.W.Store.Trace {
			if c.Actor != "setup" && (c.Changed() || c.Err != "") {
				fmt.Printf("%4d p%-3d %-10s %-8s %-13s %-5s dry=%v %s err=%q\n", c.Seq, c.Pass, c.Actor, c.Source, c.Verb, c.PatchType, c.DryRun, c.Key, trunc(c.Err, 100))
			}
		}
		for _, k := range r.W.Store.Keys() {
			if k.Group == engine.PKOGroup {
				fmt.Printf("== %s\n%s\n", k, mustJSON(r.W.Store.Peek(k)))
			}
		}
	}
	// situation of the open C09/C15 finding: a paused ObjectSet stops at an earlier failing phase and never pauses the
	// ObjectSetPhase of a later delegated phase, so its Paused condition never becomes True (and a deployment waiting for
	// that confirmation never archives it)
	for _, kind := range []string{"ObjectSet", "ClusterObjectSet"} {
		for _, k := range r.W.ListKeys(engine.PKOGroup, kind) {
			set := r.W.Store.PeekNoCopy(k)
			if lifecycleOf(set) != "Paused" || condTrue(set, "Paused") {
				continue
			}
			for i, ph := range OwnerPhases(r.W.Store, set) {
				if i == 0 || ph.Class == "" {
					continue
				}
				if po := r.W.Store.PeekNoCopy(phaseObjectKey(set, ph)); po != nil {
					if p, _ := asMap(po["spec"])["paused"].(bool); !p {
						r.Labels["paused-objectset-with-unpaused-later-delegated-phase"] = true
					}
				}
			}
		}
	}
	// situation of open finding O8: a paused, unavailable revision whose status lists no controlled object (an empty
	// controllerOf is not serialised, so the deployment controller reads it as "not reported yet") waits for archival for ever
	// unless a newer revision becomes Available
	for _, kind := range []string{"ObjectSet", "ClusterObjectSet"} {
		keys := r.W.ListKeys(engine.PKOGroup, kind)
		newestAvailable := false
		var newestRev int64 = -1
		for _, k := range keys {
			o := r.W.Store.PeekNoCopy(k)
			if rv := asInt(asMap(o["status"])["revision"]); rv > newestRev {
				newestRev, newestAvailable = rv, condTrue(o, "Available")
			}
		}
		for _, k := range keys {
			o := r.W.Store.PeekNoCopy(k)
			if lifecycleOf(o) == "Paused" && condTrue(o, "Paused") && !condTrue(o, "Available") && !newestAvailable &&
				asInt(asMap(o["status"])["revision"]) < newestRev && len(controllerOfList(asMap(o["status"]))) == 0 {
				r.Labels["paused-unavailable-revision-controlling-nothing"] = true
			}
			// situation of open finding O10: a revision paused as an archival candidate while it was briefly unavailable became
			// Available again; it no longer qualifies for archival, and nothing ever unpauses it
			if lifecycleOf(o) == "Paused" && condTrue(o, "Paused") && condTrue(o, "Available") && !newestAvailable &&
				asInt(asMap(o["status"])["revision"]) < newestRev && kubesim.AnnotationsOf(o)["package-operator.run/paused-by-parent"] == "" {
				r.Labels["revision-paused-for-archival-is-available-again"] = true
			}
		}
	}
	if ok {
		// one more full round must change nothing
		for _, kind := range []string{"Package", "ObjectDeployment", "ObjectSet", "ObjectSetPhase"} {
			for _, k := range r.W.ListKeys(engine.PKOGroup, kind) {
				for t := range engine.Conditions(r.W.Store.Peek(k)) {
					if strings.Contains(t, "/") {
						r.Labels["mapped-condition-on-"+kind] = true
					}
				}
			}
		}
		if d.IdleMs > 0 {
			time.Sleep(time.Duration(d.IdleMs) * time.Millisecond)
			r.Labels["idle-before-final-round"] = true
		}
		before := r.W.Store.RV()
		writes := 0
		from := len(r.W.Store.Trace)
		if _, _, err := r.Quiesce(); err != nil {
			return nil, err
		}
		detail := ""
		for _, c := range r.W.Store.Trace[from:] {
			if c.Actor == "pko" && c.Changed() {
				writes++
				if writes <= 4 {
					detail += fmt.Sprintf("\n  pass %d %s %s %s: %s", c.Pass, c.Verb, c.Source, c.Key, trunc(diffSummary(c.Pre, c.Post), 1600))
				}
			}
		}
		if r.W.Store.RV() != before || writes > 0 {
			return res, Violf("C10", "not-stable-at-quiescence", "after reaching quiescence another full round of reconciles performed %d state-changing writes%s", writes, detail)
		}
	}
	return res, nil
}

// checkC10 compares a disturbed run with the reference run of the same script.
func checkC10(ref, got *c10Result) error {
	if !ref.quiescent {
		return fmt.Errorf("reference run did not reach quiescence")
	}
	if !got.quiescent {
		return Violf("C10", "no-convergence", "after the disturbances stopped the controllers did not reach quiescence within the round bound (state still changing)")
	}
	if !kubesim.JSONEqual(mustNorm(ref.proj), mustNorm(got.proj)) {
		// list every differing object (the first one in full)
		var others []string
		na, nb := mustNorm(ref.proj), mustNorm(got.proj)
		for k := range na {
			if !kubesim.JSONEqual(na[k], nb[k]) {
				others = append(others, k)
			}
		}
		for k := range nb {
			if _, ok := na[k]; !ok {
				others = append(others, k)
			}
		}
		sort.Strings(others)
		key := "end-state-differs-from-undisturbed-run"
		if got.labels["paused-objectset-with-unpaused-later-delegated-phase"] && !ref.labels["paused-objectset-with-unpaused-later-delegated-phase"] {
			key += ":paused-objectset-never-reaches-later-delegated-phase"
		} else if got.labels["paused-unavailable-revision-controlling-nothing"] && !ref.labels["paused-unavailable-revision-controlling-nothing"] {
			key += ":unavailable-revision-controlling-nothing-never-archived"
		} else if got.labels["revision-paused-for-archival-is-available-again"] && !ref.labels["revision-paused-for-archival-is-available-again"] {
			key += ":revision-paused-for-archival-became-available-again"
		}
		return Violf("C10", key, "the end state differs from the undisturbed run: %s (all differing objects: %v)", firstDiff(ref.proj, got.proj), others)
	}
	return nil
}

// diffSummary names the top-level sections (and for metadata/status the fields) that differ between two states.
func diffSummary(pre, post map[string]any) string {
	if pre == nil || post == nil {
		return fmt.Sprintf("pre=%v post=%v", pre != nil, post != nil)
	}
	out := ""
	for _, sec := range []string{"metadata", "spec", "status", "data", "objects"} {
		a, _ := pre[sec].(map[string]any)
		b, _ := post[sec].(map[string]any)
		if a == nil && b == nil {
			if !kubesim.JSONEqual(pre[sec], post[sec]) {
				out += fmt.Sprintf(" %s: %s -> %s;", sec, trunc(mustJSON(pre[sec]), 150), trunc(mustJSON(post[sec]), 150))
			}
			continue
		}
		keys := map[string]bool{}
		for k := range a {
			keys[k] = true
		}
		for k := range b {
			keys[k] = true
		}
		var ks []string
		for k := range keys {
			ks = append(ks, k)
		}
		sort.Strings(ks)
		for _, k := range ks {
			if k == "resourceVersion" || k == "managedFields" {
				continue
			}
			if k == "conditions" {
				ca, cb := engine.Conditions(pre), engine.Conditions(post)
				for t, x := range ca {
					if y, ok := cb[t]; !ok || x != y {
						out += fmt.Sprintf(" condition %s: %+v -> %+v;", t, x, y)
					}
				}
				for t, y := range cb {
					if _, ok := ca[t]; !ok {
						out += fmt.Sprintf(" condition %s: added %+v;", t, y)
					}
				}
				if !kubesim.JSONEqual(a[k], b[k]) {
					out += fmt.Sprintf(" raw conditions %s -> %s", mustJSON(a[k]), mustJSON(b[k]))
				}
				continue
			}
			if !kubesim.JSONEqual(a[k], b[k]) {
				out += fmt.Sprintf(" %s.%s: %s -> %s;", sec, k, trunc(mustJSON(a[k]), 150), trunc(mustJSON(b[k]), 150))
			}
		}
	}
	return out
}
