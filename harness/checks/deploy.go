package checks

import (
	"strconv"

	metav1 "k8s.io/apimachinery/pkg/apis/meta/v1"
	"k8s.io/utils/ptr"
	"sigs.k8s.io/controller-runtime/pkg/client"

	corev1alpha1 "package-operator.run/apis/core/v1alpha1"

	"package-operator.run/verifharness/engine"
	"package-operator.run/verifharness/kubesim"
)

// DepName is the name of the ObjectDeployment the deployment monitors (C07, C08, C09) look at: "dep" in the scenarios that
// create an ObjectDeployment directly; tests that run those monitors over a Package's deployment set it to the package name.
var DepName = "dep"

// isDepSet: PKO labels every ObjectSet it creates for a deployment with the deployment's name.
func isDepSet(o map[string]any) bool {
	return kubesim.LabelsOf(o)["package-operator.run/object-deployment"] == DepName
}

func depKey() kubesim.Key {
	return kubesim.Key{Group: engine.PKOGroup, Kind: "ObjectDeployment", Namespace: engine.NSMain, Name: DepName}
}

func (r *Runner) tmpl(i int) SetSpec {
	if len(r.Sc.Tmpls) == 0 {
		return SetSpec{}
	}
	return r.Sc.Tmpls[mod(i, len(r.Sc.Tmpls))]
}

func (r *Runner) depTemplate(i int) corev1alpha1.ObjectSetTemplate {
	t := r.tmpl(i)
	return corev1alpha1.ObjectSetTemplate{
		Metadata: metav1.ObjectMeta{Labels: map[string]string{"dep": DepName}},
		Spec:     r.TemplateSpec(t, nil),
	}
}

func init() {
	extraOps["createDeploy"] = func(r *Runner, st Step) error {
		r.W.ActAs("user", func(c client.Client) {
			d := &corev1alpha1.ObjectDeployment{}
			d.Name = DepName
			d.Namespace = engine.NSMain
			d.Spec.Selector = metav1.LabelSelector{MatchLabels: map[string]string{"dep": DepName}}
			d.Spec.Template = r.depTemplate(st.I)
			if st.J > 0 {
				d.Spec.RevisionHistoryLimit = ptr.To(int32(st.J - 1))
			}
			d.Spec.Paused = st.On
			_ = c.Create(r.W.Ctx, d)
		})
		return nil
	}
	extraOps["editDeploy"] = func(r *Runner, st Step) error {
		r.W.ActAs("user", func(c client.Client) {
			d := &corev1alpha1.ObjectDeployment{}
			if c.Get(r.W.Ctx, client.ObjectKey{Namespace: engine.NSMain, Name: DepName}, d) != nil {
				return
			}
			d.Spec.Template = r.depTemplate(st.I)
			if c.Update(r.W.Ctx, d) == nil {
				r.Labels["deploy-edited"] = true
			}
		})
		return nil
	}
	extraOps["pauseDeploy"] = func(r *Runner, st Step) error {
		r.W.ActAs("user", func(c client.Client) {
			d := &corev1alpha1.ObjectDeployment{}
			if c.Get(r.W.Ctx, client.ObjectKey{Namespace: engine.NSMain, Name: DepName}, d) != nil {
				return
			}
			d.Spec.Paused = st.On
			_ = c.Update(r.W.Ctx, d)
		})
		return nil
	}
	extraOps["historyLimit"] = func(r *Runner, st Step) error {
		r.W.ActAs("user", func(c client.Client) {
			d := &corev1alpha1.ObjectDeployment{}
			if c.Get(r.W.Ctx, client.ObjectKey{Namespace: engine.NSMain, Name: DepName}, d) != nil {
				return
			}
			if st.I <= 0 {
				d.Spec.RevisionHistoryLimit = nil
			} else {
				d.Spec.RevisionHistoryLimit = ptr.To(int32(st.I - 1))
			}
			_ = c.Update(r.W.Ctx, d)
		})
		return nil
	}
	extraOps["deleteDeploy"] = func(r *Runner, st Step) error {
		r.W.ActAs("user", func(c client.Client) {
			d := &corev1alpha1.ObjectDeployment{}
			d.Name, d.Namespace = DepName, engine.NSMain
			_ = c.Delete(r.W.Ctx, d)
		})
		return nil
	}
}

// DeploymentSets lists the ObjectSets of the deployment (by label), sorted by revision then name.
func (r *Runner) DeploymentSets() []map[string]any {
	var out []map[string]any
	for _, k := range r.W.ListKeys(engine.PKOGroup, "ObjectSet") {
		o := r.W.Store.PeekNoCopy(k)
		if isDepSet(o) {
			out = append(out, o)
		}
	}
	return out
}

func tmplName(i int) string { return "T" + strconv.Itoa(i) }
