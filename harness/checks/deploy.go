package checks

import (
	"crypto/sha256"
	"encoding/hex"
	"strconv"
	"strings"

	metav1 "k8s.io/apimachinery/pkg/apis/meta/v1"
	"k8s.io/apimachinery/pkg/apis/meta/v1/unstructured"
	"k8s.io/apimachinery/pkg/types"
	"k8s.io/utils/ptr"
	"sigs.k8s.io/controller-runtime/pkg/client"

	corev1alpha1 "package-operator.run/apis/core/v1alpha1"

	"package-operator.run/verifharness/engine"
	"package-operator.run/verifharness/kubesim"
)

// DepName is the name of the ObjectDeployment the deployment monitors (C07, C08, C09) look at: "dep" in the scenarios that
// create an ObjectDeployment directly; tests that run those monitors over a Package's deployment set it to the package name.
var DepName = "dep"

// DepCluster: the scenario's deployment is a ClusterObjectDeployment (its revisions are ClusterObjectSets). Set by NewRunner
// from Scenario.ClusterDep; cases run one after the other in a process.
var DepCluster bool

func depKind() string    { return setKind(DepCluster, "ObjectDeployment") }
func depSetKind() string { return setKind(DepCluster, "ObjectSet") }
func depNS() string {
	if DepCluster {
		return ""
	}
	return engine.NSMain
}
func isDepController(c string) bool {
	if DepCluster {
		return c == engine.CtrlClusterObjectDeployment
	}
	return c == engine.CtrlObjectDeployment
}

// depObject returns an empty typed deployment object of the scenario's flavour and accessors for the shared spec fields.
func depObject() (client.Object, *corev1alpha1.ObjectDeploymentSpec) {
	if DepCluster {
		d := &corev1alpha1.ClusterObjectDeployment{}
		d.Name = DepName
		return d, (*corev1alpha1.ObjectDeploymentSpec)(&d.Spec)
	}
	d := &corev1alpha1.ObjectDeployment{}
	d.Name, d.Namespace = DepName, engine.NSMain
	return d, &d.Spec
}

// isDepSet: PKO labels every ObjectSet it creates for a deployment with the deployment's name.
func isDepSet(o map[string]any) bool {
	return kubesim.LabelsOf(o)["package-operator.run/object-deployment"] == DepName
}

func depKey() kubesim.Key {
	return kubesim.Key{Group: engine.PKOGroup, Kind: depKind(), Namespace: depNS(), Name: DepName}
}

func (r *Runner) tmpl(i int) SetSpec {
	if len(r.Sc.Tmpls) == 0 {
		return SetSpec{}
	}
	return r.Sc.Tmpls[mod(i, len(r.Sc.Tmpls))]
}

func (r *Runner) depTemplate(i int) corev1alpha1.ObjectSetTemplate {
	t := r.tmpl(i)
	t.Cluster = DepCluster
	return corev1alpha1.ObjectSetTemplate{
		Metadata: metav1.ObjectMeta{Labels: map[string]string{"dep": DepName}},
		Spec:     r.TemplateSpec(t, r.ensureTemplateSlices(i, t)),
	}
}

// ensureTemplateSlices stores the objects of the template's phases marked Sliced in ObjectSlices (two per phase, like
// hand-made sets), the way the package controller does for big phases: the slices exist before the template refers to them
// and are owned (not controlled) by the deployment once that exists.
func (r *Runner) ensureTemplateSlices(i int, t SetSpec) map[int][]string {
	names := map[int][]string{}
	if len(r.Sc.Tmpls) == 0 {
		return names
	}
	r.W.ActAs("user", func(c client.Client) {
		for pi, ph := range t.Phases {
			if !ph.Sliced || len(ph.Objs) == 0 {
				continue
			}
			cut := (len(ph.Objs) + 1) / 2
			for si, part := range [][]ObjSpec{ph.Objs[:cut], ph.Objs[cut:]} {
				if len(part) == 0 {
					continue
				}
				sl := &unstructured.Unstructured{Object: map[string]any{}}
				sl.SetGroupVersionKind(corev1alpha1.GroupVersion.WithKind(setKind(DepCluster, "ObjectSlice")))
				sl.SetNamespace(depNS())
				var objs []any
				for _, o := range part {
					oso := r.BuildObject(o, DepCluster)
					m, _ := kubesim.Normalize(&oso)
					objs = append(objs, m)
				}
				sl.Object["objects"] = objs
				// named by content, as the package controller names slices: two templates with the same content are the same
				// template in the sliced variant too
				sum := sha256.Sum256([]byte(mustJSON(objs)))
				sl.SetName(DepName + "-t" + hex.EncodeToString(sum[:4]) + "-slice" + strconv.Itoa(si))
				_ = c.Create(r.W.Ctx, sl) // AlreadyExists: the template was used before
				names[pi] = append(names[pi], sl.GetName())
				r.Labels["deployment-template-with-sliced-phase"] = true
			}
		}
	})
	return names
}

// ownTemplateSlices makes the deployment an owner of every slice created for its templates (so the cluster's garbage
// collector keeps them while the deployment exists, whatever happens to the revisions that used them).
func (r *Runner) ownTemplateSlices() {
	dep := r.W.Store.Peek(depKey())
	if dep == nil {
		return
	}
	r.W.ActAs("user", func(c client.Client) {
		for _, k := range r.W.ListKeys(engine.PKOGroup, setKind(DepCluster, "ObjectSlice")) {
			sl := r.W.Store.Peek(k)
			if sl == nil || !strings.HasPrefix(k.Name, DepName+"-t") || IsOwnedBy(sl, dep) {
				continue
			}
			u := engine.U(sl)
			u.SetOwnerReferences(append(u.GetOwnerReferences(), metav1.OwnerReference{
				APIVersion: "package-operator.run/v1alpha1", Kind: depKind(), Name: DepName, UID: types.UID(engine.UID(dep))}))
			_ = c.Update(r.W.Ctx, u)
		}
	})
}

func init() {
	extraOps["createDeploy"] = func(r *Runner, st Step) error {
		r.W.ActAs("user", func(c client.Client) {
			d, spec := depObject()
			spec.Selector = metav1.LabelSelector{MatchLabels: map[string]string{"dep": DepName}}
			spec.Template = r.depTemplate(st.I)
			if st.J > 0 {
				spec.RevisionHistoryLimit = ptr.To(int32(st.J - 1))
			}
			spec.Paused = st.On
			_ = c.Create(r.W.Ctx, d)
		})
		r.ownTemplateSlices()
		return nil
	}
	extraOps["editDeploy"] = func(r *Runner, st Step) error {
		r.W.ActAs("user", func(c client.Client) {
			d, spec := depObject()
			if c.Get(r.W.Ctx, client.ObjectKey{Namespace: depNS(), Name: DepName}, d) != nil {
				return
			}
			spec.Template = r.depTemplate(st.I)
			if c.Update(r.W.Ctx, d) == nil {
				r.Labels["deploy-edited"] = true
			}
		})
		r.ownTemplateSlices()
		return nil
	}
	extraOps["pauseDeploy"] = func(r *Runner, st Step) error {
		r.W.ActAs("user", func(c client.Client) {
			d, spec := depObject()
			if c.Get(r.W.Ctx, client.ObjectKey{Namespace: depNS(), Name: DepName}, d) != nil {
				return
			}
			spec.Paused = st.On
			_ = c.Update(r.W.Ctx, d)
		})
		return nil
	}
	extraOps["historyLimit"] = func(r *Runner, st Step) error {
		r.W.ActAs("user", func(c client.Client) {
			d, spec := depObject()
			if c.Get(r.W.Ctx, client.ObjectKey{Namespace: depNS(), Name: DepName}, d) != nil {
				return
			}
			if st.I <= 0 {
				spec.RevisionHistoryLimit = nil
			} else {
				spec.RevisionHistoryLimit = ptr.To(int32(st.I - 1))
			}
			_ = c.Update(r.W.Ctx, d)
		})
		return nil
	}
	extraOps["deleteDeploy"] = func(r *Runner, st Step) error {
		r.W.ActAs("user", func(c client.Client) {
			d, _ := depObject()
			_ = c.Delete(r.W.Ctx, d)
		})
		return nil
	}
}

// DeploymentSets lists the ObjectSets of the deployment (by label), sorted by revision then name.
func (r *Runner) DeploymentSets() []map[string]any {
	var out []map[string]any
	for _, k := range r.W.ListKeys(engine.PKOGroup, depSetKind()) {
		o := r.W.Store.PeekNoCopy(k)
		if isDepSet(o) {
			out = append(out, o)
		}
	}
	return out
}

func tmplName(i int) string { return "T" + strconv.Itoa(i) }
