package checks

import (
	"package-operator.run/internal/constants"

	"package-operator.run/verifharness/engine"
	"package-operator.run/verifharness/kubesim"
	"package-operator.run/verifharness/refmodel"
)

// phaseObjectKey is the key of the ObjectSetPhase object realising a delegated phase.
func phaseObjectKey(owner map[string]any, ph PhaseView) kubesim.Key {
	kind := "ObjectSetPhase"
	if asStr(owner["kind"]) == "ClusterObjectSet" {
		kind = "ClusterObjectSetPhase"
	}
	return kubesim.Key{Group: engine.PKOGroup, Kind: kind, Namespace: kubesim.MetaString(owner, "namespace"), Name: kubesim.MetaString(owner, "name") + "-" + ph.Name}
}

// stillControlled lists the keys of a phase that, in the given state function, are present and
// controlled by the owner (for delegated phases: the phase object controlled by the owner, and the
// objects controlled by that phase object).
func stillControlled(owner map[string]any, ph PhaseView, at func(k kubesim.Key) map[string]any, annot bool) []kubesim.Key {
	id := OwnerIDOf(owner)
	var out []kubesim.Key
	if ph.Class != "" {
		pk := phaseObjectKey(owner, ph)
		po := at(pk)
		if po != nil && ControlledByID(po, id, false) {
			out = append(out, pk)
			pid := OwnerIDOf(po)
			pannot := ph.Class == engine.ClassRemote
			for _, k := range ph.Keys {
				if o := at(k); o != nil && ControlledByID(o, pid, pannot) {
					out = append(out, k)
				}
			}
		}
		return out
	}
	for _, k := range ph.Keys {
		if o := at(k); o != nil && ControlledByID(o, id, annot) {
			out = append(out, k)
		}
	}
	return out
}

func hasFinalizer(o map[string]any, f string) bool {
	for _, x := range finalizers(o) {
		if x == f {
			return true
		}
	}
	return false
}

// C04Monitor: teardown in reverse phase order; finalizer / Archived=True only when nothing is controlled any more.
type C04Monitor struct {
	TeardownPasses map[string]int // owner uid -> number of teardown passes
}

func (m *C04Monitor) AfterPass(r *Runner, pv *PassView) error {
	if !isSetController(pv.P.Controller) && !isPhaseController(pv.P.Controller) {
		return nil
	}
	if pv.Owner == nil {
		return nil
	}
	if !OwnerDeleting(pv.Owner) && !OwnerArchived(pv.Owner) {
		return nil
	}
	if isPhaseController(pv.P.Controller) {
		cls := kubesim.LabelsOf(pv.Owner)["package-operator.run/phase-class"]
		want := engine.ClassDefault
		if pv.P.Controller == engine.CtrlRemotePhase {
			want = engine.ClassRemote
		}
		if cls != want {
			return nil
		}
	}
	if hasFinalizer(pv.Owner, "orphan") {
		return nil // orphan propagation: nothing is torn down (C05)
	}
	if m.TeardownPasses == nil {
		m.TeardownPasses = map[string]int{}
	}
	annot := pv.P.Controller == engine.CtrlRemotePhase
	uid := engine.UID(pv.Owner)
	phases := OwnerPhases(r.W.Store, pv.Owner)
	nonEmpty := 0
	for _, ph := range phases {
		if len(ph.Keys) > 0 || ph.Class != "" {
			nonEmpty++
		}
	}
	if hasFinalizer(pv.Owner, constants.CachedFinalizer) {
		m.TeardownPasses[uid]++
		if m.TeardownPasses[uid] >= 2 && nonEmpty >= 2 {
			r.Labels["c04-multi-pass-multi-phase-teardown"] = true
		}
	}
	phaseOf := map[kubesim.Key]int{}
	for i, ph := range phases {
		if ph.Class != "" {
			phaseOf[phaseObjectKey(pv.Owner, ph)] = i
			continue
		}
		for _, k := range ph.Keys {
			phaseOf[k] = i
		}
	}
	base := pv.P.FirstSeq
	for ci, c := range pv.Calls {
		if c.Actor != "pko" || c.DryRun || !c.IsWrite() {
			continue
		}
		idx := base + ci
		at := func(k kubesim.Key) map[string]any { return r.StateAt(k, idx) }
		if c.Verb == "delete" && c.Err == "" {
			i, ok := phaseOf[c.Key]
			if !ok {
				continue
			}
			for j := i + 1; j < len(phases); j++ {
				if left := stillControlled(pv.Owner, phases[j], at, annot); len(left) > 0 {
					return Violf("C04", "delete-before-later-phase-gone",
						"pass %d of %s %s deleted %s (phase %d %q) while %v of later phase %d %q is still present and controlled by it",
						pv.P.ID, asStr(pv.Owner["kind"]), kubesim.MetaString(pv.Owner, "name"), c.Key, i, phases[i].Name, left, j, phases[j].Name)
				}
			}
		}
		if c.Key != pv.OwnerKey || c.Err != "" {
			continue
		}
		removesFinalizer := c.Pre != nil && hasFinalizer(c.Pre, constants.CachedFinalizer) && (c.Post == nil || !hasFinalizer(c.Post, constants.CachedFinalizer))
		reportsArchived := false
		if c.Verb == "update-status" {
			if a, ok := engine.Conditions(asMap(c.Body))["Archived"]; ok && a.Status == "True" {
				reportsArchived = true
			}
		}
		if removesFinalizer || reportsArchived {
			for j, ph := range phases {
				if left := stillControlled(pv.Owner, ph, at, annot); len(left) > 0 {
					what, key := "removed its finalizer", "finalizer-removed-while-controlling"
					if reportsArchived {
						what, key = "reported Archived=True", "archived-while-controlling"
					}
					if len(ph.Slices) > 0 {
						key += "-sliced"
					}
					return Violf("C04", key,
						"pass %d: %s %s %s while %v (phase %d %q) is still present and controlled by it",
						pv.P.ID, asStr(pv.Owner["kind"]), kubesim.MetaString(pv.Owner, "name"), what, left, j, ph.Name)
				}
			}
		}
	}
	// unfinished archival: Archived must be reported False and the finalizer must stay
	if OwnerArchived(pv.Owner) && !OwnerDeleting(pv.Owner) && pv.P.Err == "" && !pv.P.Crashed {
		now := func(k kubesim.Key) map[string]any { return r.W.Store.PeekNoCopy(k) }
		unfinished := false
		for _, ph := range phases {
			if len(stillControlled(pv.Owner, ph, now, annot)) > 0 {
				unfinished = true
			}
		}
		if unfinished && len(pv.StatusWrites) > 0 {
			sw := pv.StatusWrites[len(pv.StatusWrites)-1]
			if a, ok := engine.Conditions(asMap(sw.Body))["Archived"]; !ok || a.Status != "False" {
				return Violf("C04", "archival-unfinished-not-reported",
					"pass %d: archival of %s is unfinished but Archived is reported %q", pv.P.ID, kubesim.MetaString(pv.Owner, "name"), a.Status)
			}
		}
	}
	return nil
}

var _ = refmodel.Adopt
