package refmodel

import "strconv"

// ObjRef is one owner entry of an object (from ownerReferences or the owners annotation).
type ObjRef struct {
	Group      string `json:"group"`
	Kind       string `json:"kind"`
	Name       string `json:"name"`
	UID        string `json:"uid"`
	Controller bool   `json:"controller,omitempty"`
}

// OwnerID identifies an ObjectSet / ObjectSetPhase.
type OwnerID struct {
	Group string `json:"group"`
	Kind  string `json:"kind"`
	Name  string `json:"name"`
	UID   string `json:"uid"`
}

// RemotePhase is a status.remotePhases entry.
type RemotePhase struct {
	Name string `json:"name"`
	UID  string `json:"uid"`
}

// PrevSet is a declared previous revision as it exists at decision time (Exists=false: garbage collected).
type PrevSet struct {
	ID           OwnerID       `json:"id"`
	Exists       bool          `json:"exists"`
	RemotePhases []RemotePhase `json:"remotePhases,omitempty"`
}

// AdoptInput is everything the adoption decision of C01/C02 depends on.
type AdoptInput struct {
	ObjOwners     []ObjRef          `json:"objOwners,omitempty"`
	RevAnnotation *string           `json:"revAnnotation,omitempty"` // nil = absent
	Labels        map[string]string `json:"labels,omitempty"`
	Owner         OwnerID           `json:"owner"`
	OwnerRevision int64             `json:"ownerRevision"`
	CP            string            `json:"cp,omitempty"` // "", Prevent, IfNoController, None
	Previous      []PrevSet         `json:"previous,omitempty"`
	Force         bool              `json:"force,omitempty"`
}

// Decision values.
const (
	Already    = "alreadyController"
	Adopt      = "adopt"
	LeaveNewer = "leaveNewer"
	Refuse     = "refuse"
	ParseError = "parseError"
)

func (r ObjRef) is(o OwnerID) bool {
	return r.Group == o.Group && r.Kind == o.Kind && r.Name == o.Name && r.UID == o.UID
}

// Decide is the adoption table written from the statement of C01/C02.
func Decide(in AdoptInput) string {
	var ctrl *ObjRef
	for i := range in.ObjOwners {
		if in.ObjOwners[i].Controller {
			c := in.ObjOwners[i]
			if c.is(in.Owner) {
				return Already
			}
			if ctrl == nil {
				ctrl = &c
			}
		}
	}
	rev := int64(0)
	if in.RevAnnotation != nil && *in.RevAnnotation != "" {
		v, err := strconv.ParseInt(*in.RevAnnotation, 10, 64)
		if err != nil {
			return ParseError
		}
		rev = v
	}
	if rev > in.OwnerRevision {
		return LeaveNewer
	}
	cp := in.CP
	if in.Force || in.Labels["package-operator.run/package"] == "package-operator" {
		cp = "None"
	}
	if cp == "None" {
		return Adopt
	}
	if cp == "IfNoController" && ctrl == nil {
		return Adopt
	}
	byPrev := false
	if ctrl != nil {
		for _, p := range in.Previous {
			if !p.Exists {
				continue
			}
			if ctrl.is(p.ID) {
				byPrev = true
			}
			phaseKind := "ObjectSetPhase"
			if len(p.ID.Kind) >= 7 && p.ID.Kind[:7] == "Cluster" {
				phaseKind = "ClusterObjectSetPhase"
			}
			for _, rp := range p.RemotePhases {
				if ctrl.Group == p.ID.Group && ctrl.Kind == phaseKind && ctrl.Name == rp.Name && ctrl.UID == rp.UID {
					byPrev = true
				}
			}
		}
	}
	if !byPrev {
		return Refuse
	}
	if rev == in.OwnerRevision {
		return Refuse
	}
	return Adopt
}
