// Package refmodel holds the independent reference models (oracles). Nothing in here
// imports Package Operator's implementation packages; only the API types (pure data)
// are used as the input language.
package refmodel

import (
	"fmt"
	"strconv"
	"strings"

	metav1 "k8s.io/apimachinery/pkg/apis/meta/v1"

	corev1alpha1 "package-operator.run/apis/core/v1alpha1"
)

// ---- CEL mini-AST ----------------------------------------------------------

// Expr is a boolean expression over `self` that the reference can evaluate itself.
type Expr struct {
	Op    string   `json:"op"`              // "eq","ne","gt","lt","has","and","or","not","true","false"
	Path  []string `json:"path,omitempty"`  // for eq/ne/gt/lt/has: field path under self
	Lit   any      `json:"lit,omitempty"`   // string | int64 | bool
	Left  *Expr    `json:"left,omitempty"`  // and/or/not
	Right *Expr    `json:"right,omitempty"` // and/or
}

// ErrEval marks a CEL evaluation error (missing key, type mismatch): the probe fails.
type evalResult int

const (
	evFalse evalResult = iota
	evTrue
	evError
)

func litCEL(l any) string {
	switch v := l.(type) {
	case string:
		return strconv.Quote(v)
	case int64:
		return strconv.FormatInt(v, 10)
	case int:
		return strconv.Itoa(v)
	case float64:
		return strconv.FormatInt(int64(v), 10)
	case bool:
		if v {
			return "true"
		}
		return "false"
	}
	return "null"
}

// CEL renders the expression as CEL source.
func (e *Expr) CEL() string {
	p := "self"
	for _, s := range e.Path {
		p += "." + s
	}
	switch e.Op {
	case "true":
		return "true"
	case "false":
		return "false"
	case "eq":
		return p + " == " + litCEL(e.Lit)
	case "ne":
		return p + " != " + litCEL(e.Lit)
	case "gt":
		return p + " > " + litCEL(e.Lit)
	case "lt":
		return p + " < " + litCEL(e.Lit)
	case "has":
		return "has(" + p + ")"
	case "not":
		return "!(" + e.Left.CEL() + ")"
	case "and":
		return "(" + e.Left.CEL() + " && " + e.Right.CEL() + ")"
	case "or":
		return "(" + e.Left.CEL() + " || " + e.Right.CEL() + ")"
	}
	panic("bad op " + e.Op)
}

func lookup(obj map[string]any, path []string) (any, bool, bool) { // value, found, traversable
	var cur any = obj
	for _, p := range path {
		m, ok := cur.(map[string]any)
		if !ok {
			return nil, false, false // selecting a field on a non-map: CEL error
		}
		v, ok := m[p]
		if !ok {
			return nil, false, true
		}
		cur = v
	}
	return cur, true, true
}

func normLit(l any) any {
	switch v := l.(type) {
	case int:
		return int64(v)
	case float64:
		if v == float64(int64(v)) {
			return int64(v)
		}
	}
	return l
}

// eval follows CEL semantics for the supported subset: field selection on a missing key or a
// non-map is an error; comparing values of different dynamic types with ==/!= yields false/true
// (CEL heterogeneous equality), ordering different types is an error; && and || are
// commutative w.r.t. errors (false && err = false, true || err = true).
func (e *Expr) eval(obj map[string]any) evalResult {
	b := func(x bool) evalResult {
		if x {
			return evTrue
		}
		return evFalse
	}
	switch e.Op {
	case "true":
		return evTrue
	case "false":
		return evFalse
	case "has":
		if len(e.Path) == 0 {
			return evError
		}
		parent, found, trav := lookup(obj, e.Path[:len(e.Path)-1])
		if !trav || !found {
			return evError
		}
		// cel-go (default options, no EnableErrorOnBadPresenceTest): a presence test on a map tests the
		// key, on a list it is an error (string index), on any other value (string, number, bool,
		// null) it is simply false. See interpreter/attributes.go refQualify.
		switch m := parent.(type) {
		case map[string]any:
			_, has := m[e.Path[len(e.Path)-1]]
			return b(has)
		case []any:
			return evError
		default:
			return evFalse
		}
	case "eq", "ne", "gt", "lt":
		v, found, trav := lookup(obj, e.Path)
		if !trav || !found {
			return evError
		}
		lit := normLit(e.Lit)
		v = normLit(v)
		switch e.Op {
		case "eq", "ne":
			eq := false
			switch x := v.(type) {
			case string:
				y, ok := lit.(string)
				eq = ok && x == y
			case int64:
				switch y := lit.(type) {
				case int64:
					eq = x == y
				}
			case float64:
				switch y := lit.(type) {
				case int64:
					eq = x == float64(y)
				}
			case bool:
				y, ok := lit.(bool)
				eq = ok && x == y
			case nil:
				eq = false
			default:
				eq = false
			}
			if e.Op == "eq" {
				return b(eq)
			}
			return b(!eq)
		default:
			var xf float64
			switch x := v.(type) {
			case int64:
				xf = float64(x)
			case float64:
				xf = x
			default:
				return evError
			}
			y, ok := lit.(int64)
			if !ok {
				return evError
			}
			if e.Op == "gt" {
				return b(xf > float64(y))
			}
			return b(xf < float64(y))
		}
	case "not":
		switch e.Left.eval(obj) {
		case evTrue:
			return evFalse
		case evFalse:
			return evTrue
		}
		return evError
	case "and":
		l, r := e.Left.eval(obj), e.Right.eval(obj)
		if l == evFalse || r == evFalse {
			return evFalse
		}
		if l == evError || r == evError {
			return evError
		}
		return evTrue
	case "or":
		l, r := e.Left.eval(obj), e.Right.eval(obj)
		if l == evTrue || r == evTrue {
			return evTrue
		}
		if l == evError || r == evError {
			return evError
		}
		return evFalse
	}
	panic("bad op")
}

// ---- probes ------------------------------------------------------------------

// RProbe is one elementary probe.
type RProbe struct {
	Kind       string `json:"kind"` // "condition" | "fieldsEqual" | "cel"
	CondType   string `json:"condType,omitempty"`
	CondStatus string `json:"condStatus,omitempty"`
	FieldA     string `json:"fieldA,omitempty"`
	FieldB     string `json:"fieldB,omitempty"`
	CEL        *Expr  `json:"cel,omitempty"`
	CELMessage string `json:"celMessage,omitempty"`
}

// LabelReq is one matchExpressions entry.
type LabelReq struct {
	Key    string   `json:"key"`
	Op     string   `json:"op"` // In, NotIn, Exists, DoesNotExist
	Values []string `json:"values,omitempty"`
}

// RSelector selects objects by kind and labels. HasLabelSelector=false means "no label selector".
type RSelector struct {
	Group            string            `json:"group"`
	Kind             string            `json:"kind"`
	HasLabelSelector bool              `json:"hasLabelSelector,omitempty"`
	MatchLabels      map[string]string `json:"matchLabels,omitempty"`
	Exprs            []LabelReq        `json:"exprs,omitempty"`
}

// RObjectSetProbe = selector + probes.
type RObjectSetProbe struct {
	Sel    RSelector `json:"sel"`
	Probes []RProbe  `json:"probes"`
}

// API renders the probe list in PKO's API types.
func API(ps []RObjectSetProbe) []corev1alpha1.ObjectSetProbe {
	var out []corev1alpha1.ObjectSetProbe
	for _, p := range ps {
		ap := corev1alpha1.ObjectSetProbe{
			Selector: corev1alpha1.ProbeSelector{Kind: &corev1alpha1.PackageProbeKindSpec{Group: p.Sel.Group, Kind: p.Sel.Kind}},
			Probes:   []corev1alpha1.Probe{},
		}
		if p.Sel.HasLabelSelector {
			ls := &metav1.LabelSelector{MatchLabels: p.Sel.MatchLabels}
			for _, r := range p.Sel.Exprs {
				ls.MatchExpressions = append(ls.MatchExpressions, metav1.LabelSelectorRequirement{
					Key: r.Key, Operator: metav1.LabelSelectorOperator(r.Op), Values: r.Values,
				})
			}
			ap.Selector.Selector = ls
		}
		for _, e := range p.Probes {
			switch e.Kind {
			case "condition":
				ap.Probes = append(ap.Probes, corev1alpha1.Probe{Condition: &corev1alpha1.ProbeConditionSpec{Type: e.CondType, Status: e.CondStatus}})
			case "fieldsEqual":
				ap.Probes = append(ap.Probes, corev1alpha1.Probe{FieldsEqual: &corev1alpha1.ProbeFieldsEqualSpec{FieldA: e.FieldA, FieldB: e.FieldB}})
			case "cel":
				ap.Probes = append(ap.Probes, corev1alpha1.Probe{CEL: &corev1alpha1.ProbeCELSpec{Rule: e.CEL.CEL(), Message: e.CELMessage}})
			}
		}
		out = append(out, ap)
	}
	return out
}

func objLabels(obj map[string]any) map[string]string {
	out := map[string]string{}
	md, _ := obj["metadata"].(map[string]any)
	l, _ := md["labels"].(map[string]any)
	for k, v := range l {
		if s, ok := v.(string); ok {
			out[k] = s
		}
	}
	return out
}

func objGroupKind(obj map[string]any) (string, string) {
	av, _ := obj["apiVersion"].(string)
	k, _ := obj["kind"].(string)
	g := ""
	if i := strings.Index(av, "/"); i >= 0 {
		g = av[:i]
	}
	return g, k
}

// Selects reports whether the selector matches the object.
func (s RSelector) Selects(obj map[string]any) bool {
	g, k := objGroupKind(obj)
	if g != s.Group || k != s.Kind {
		return false
	}
	if !s.HasLabelSelector {
		return true
	}
	l := objLabels(obj)
	for k, v := range s.MatchLabels {
		if got, ok := l[k]; !ok || got != v {
			return false
		}
	}
	for _, r := range s.Exprs {
		got, has := l[r.Key]
		in := false
		for _, v := range r.Values {
			if v == got {
				in = true
			}
		}
		switch r.Op {
		case "In":
			if !has || !in {
				return false
			}
		case "NotIn":
			if has && in {
				return false
			}
		case "Exists":
			if !has {
				return false
			}
		case "DoesNotExist":
			if has {
				return false
			}
		}
	}
	return true
}

func generationOf(obj map[string]any) int64 {
	md, _ := obj["metadata"].(map[string]any)
	switch g := md["generation"].(type) {
	case int64:
		return g
	case float64:
		return int64(g)
	}
	return 0
}

// asInt64 mirrors "the field is an integer".
func asInt64(v any) (int64, bool) {
	i, ok := v.(int64)
	return i, ok
}

func fieldAt(obj map[string]any, dotted string) (any, bool) {
	path := strings.Split(strings.Trim(dotted, "."), ".")
	var cur any = obj
	for _, p := range path {
		m, ok := cur.(map[string]any)
		if !ok {
			return nil, false
		}
		v, ok := m[p]
		if !ok {
			return nil, false
		}
		cur = v
	}
	return cur, true
}

func deepEq(a, b any) bool {
	switch x := a.(type) {
	case map[string]any:
		y, ok := b.(map[string]any)
		if !ok || len(x) != len(y) {
			return false
		}
		for k, v := range x {
			w, ok := y[k]
			if !ok || !deepEq(v, w) {
				return false
			}
		}
		return true
	case []any:
		y, ok := b.([]any)
		if !ok || len(x) != len(y) {
			return false
		}
		for i := range x {
			if !deepEq(x[i], y[i]) {
				return false
			}
		}
		return true
	default:
		return a == b
	}
}

// passes evaluates one elementary probe.
func (p RProbe) passes(obj map[string]any) bool {
	switch p.Kind {
	case "condition":
		st, _ := obj["status"].(map[string]any)
		raw, ok := st["conditions"]
		if !ok {
			return false
		}
		conds, ok := raw.([]any)
		if !ok {
			return false
		}
		for _, c := range conds {
			cm, ok := c.(map[string]any)
			if !ok {
				return false // malformed entry before a match: fails
			}
			if t, _ := cm["type"].(string); t != p.CondType || cm["type"] == nil {
				continue
			}
			if og, ok := asInt64(cm["observedGeneration"]); ok && og != generationOf(obj) {
				return false
			}
			s, _ := cm["status"].(string)
			return cm["status"] != nil && s == p.CondStatus
		}
		return false
	case "fieldsEqual":
		a, ok := fieldAt(obj, p.FieldA)
		if !ok {
			return false
		}
		b, ok := fieldAt(obj, p.FieldB)
		if !ok {
			return false
		}
		return deepEq(a, b)
	case "cel":
		return p.CEL.eval(obj) == evTrue
	}
	return false
}

// Eval is the reference evaluation: pass iff every probe of every selecting entry passes;
// failures = number of failing elementary probes, a stale selected entry counting one.
func Eval(ps []RObjectSetProbe, obj map[string]any) (pass bool, failures int) {
	for _, p := range ps {
		if !p.Sel.Selects(obj) {
			continue
		}
		st, _ := obj["status"].(map[string]any)
		if og, ok := asInt64(st["observedGeneration"]); ok && og != generationOf(obj) {
			failures++
			continue
		}
		for _, e := range p.Probes {
			if !e.passes(obj) {
				failures++
			}
		}
	}
	return failures == 0, failures
}

// Describe gives a short human-readable rendering (for evidence samples).
func Describe(ps []RObjectSetProbe) string {
	var parts []string
	for _, p := range ps {
		var es []string
		for _, e := range p.Probes {
			switch e.Kind {
			case "condition":
				es = append(es, fmt.Sprintf("cond %s=%s", e.CondType, e.CondStatus))
			case "fieldsEqual":
				es = append(es, fmt.Sprintf("%s==%s", e.FieldA, e.FieldB))
			case "cel":
				es = append(es, "cel:"+e.CEL.CEL())
			}
		}
		parts = append(parts, fmt.Sprintf("%s/%s[%v %v]{%s}", p.Sel.Group, p.Sel.Kind, p.Sel.MatchLabels, p.Sel.Exprs, strings.Join(es, "; ")))
	}
	return strings.Join(parts, " | ")
}
