package engine

import (
	"github.com/go-logr/logr"
	ctrl "sigs.k8s.io/controller-runtime"
	"sigs.k8s.io/controller-runtime/pkg/client"

	"package-operator.run/internal/controllers/objectdeployments"
	"package-operator.run/internal/controllers/objectsetphases"
	"package-operator.run/internal/controllers/objectsets"
)

// Controller names.
const (
	CtrlObjectSet               = "ObjectSet"
	CtrlClusterObjectSet        = "ClusterObjectSet"
	CtrlObjectSetPhase          = "ObjectSetPhase"        // same-cluster, class "default"
	CtrlClusterObjectSetPhase   = "ClusterObjectSetPhase" // same-cluster, class "default"
	CtrlRemotePhase             = "RemoteObjectSetPhase"  // multi-cluster flavour (annotation owner strategy), class "remote"
	CtrlObjectDeployment        = "ObjectDeployment"
	CtrlClusterObjectDeployment = "ClusterObjectDeployment"
	CtrlPackage                 = "Package"
	CtrlClusterPackage          = "ClusterPackage"
	CtrlObjectTemplate          = "ObjectTemplate"
	CtrlClusterObjectTemplate   = "ClusterObjectTemplate"

	ClassDefault = "default"
	ClassRemote  = "remote"
)

// ControllerKind maps a controller name to the kind it reconciles.
var ControllerKind = map[string]string{
	CtrlObjectSet:               "ObjectSet",
	CtrlClusterObjectSet:        "ClusterObjectSet",
	CtrlObjectSetPhase:          "ObjectSetPhase",
	CtrlClusterObjectSetPhase:   "ClusterObjectSetPhase",
	CtrlRemotePhase:             "ObjectSetPhase",
	CtrlObjectDeployment:        "ObjectDeployment",
	CtrlClusterObjectDeployment: "ClusterObjectDeployment",
	CtrlPackage:                 "Package",
	CtrlClusterPackage:          "ClusterPackage",
	CtrlObjectTemplate:          "ObjectTemplate",
	CtrlClusterObjectTemplate:   "ClusterObjectTemplate",
}

// Restart models a process restart: all controllers and the dynamic cache are rebuilt,
// every piece of in-memory state is lost.
func (w *World) Restart() {
	w.Cache = newDynCache(w)
	log := logr.Discard()
	mapper := w.Store.RESTMapper()
	w.ctrls = map[string]Reconciler{}
	w.ctrls[CtrlObjectSet] = objectsets.NewObjectSetController(
		w.Client, log, w.Scheme, w.Cache, w.Uncached, nil, mapper)
	w.ctrls[CtrlClusterObjectSet] = objectsets.NewClusterObjectSetController(
		w.Client, log, w.Scheme, w.Cache, w.Uncached, nil, mapper)
	w.ctrls[CtrlObjectSetPhase] = objectsetphases.NewSameClusterObjectSetPhaseController(
		log, w.Scheme, w.Cache, w.Uncached, ClassDefault, w.Client, mapper)
	w.ctrls[CtrlClusterObjectSetPhase] = objectsetphases.NewSameClusterClusterObjectSetPhaseController(
		log, w.Scheme, w.Cache, w.Uncached, ClassDefault, w.Client, mapper)
	w.ctrls[CtrlRemotePhase] = objectsetphases.NewMultiClusterObjectSetPhaseController(
		log, w.Scheme, w.Cache, w.Uncached, ClassRemote, w.Client, w.Client, mapper)
	w.ctrls[CtrlObjectDeployment] = objectdeployments.NewObjectDeploymentController(w.DeployClient, log, w.Scheme)
	w.ctrls[CtrlClusterObjectDeployment] = objectdeployments.NewClusterObjectDeploymentController(w.DeployClient, log, w.Scheme)
	w.restartExtra()
}

// Req builds a reconcile request.
func Req(ns, name string) ctrl.Request {
	return ctrl.Request{NamespacedName: client.ObjectKey{Namespace: ns, Name: name}}
}
