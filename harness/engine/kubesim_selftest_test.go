package engine

// Self-tests of the API model: one test per fidelity item of DESIGN.md 3.1 that decides verdicts. They assert what
// the real apiserver / client does (sources named in DESIGN.md), so a change of the model that would shift verdicts
// fails here first.  Run by `bin/check selftest`.

import (
	"context"
	"fmt"
	"testing"

	corev1 "k8s.io/api/core/v1"
	apierrors "k8s.io/apimachinery/pkg/api/errors"
	metav1 "k8s.io/apimachinery/pkg/apis/meta/v1"
	"k8s.io/apimachinery/pkg/apis/meta/v1/unstructured"
	"k8s.io/apimachinery/pkg/types"
	"sigs.k8s.io/controller-runtime/pkg/client"

	corev1alpha1 "package-operator.run/apis/core/v1alpha1"
	"package-operator.run/verifharness/kubesim"
)

var bg = context.Background()

func sprintf(f string, a ...any) string { return fmt.Sprintf(f, a...) }

func widget(name string) *unstructured.Unstructured {
	u := &unstructured.Unstructured{Object: map[string]any{"spec": map[string]any{"size": int64(1)}}}
	u.SetGroupVersionKind(GVKWidget)
	u.SetName(name)
	u.SetNamespace(NSMain)
	return u
}

func mustCreate(t *testing.T, c client.Client, o client.Object) {
	t.Helper()
	if err := c.Create(bg, o); err != nil {
		t.Fatalf("create: %v", err)
	}
}

func TestModelCreate(t *testing.T) {
	w := NewWorld()
	c := w.Client
	a := widget("a")
	a.Object["status"] = map[string]any{"phase": "Ready"}
	mustCreate(t, c, a)
	if a.GetUID() == "" || a.GetResourceVersion() == "" || a.GetGeneration() != 1 || a.GetCreationTimestamp().Time.IsZero() {
		t.Fatalf("create must set uid, rv, generation=1, creationTimestamp: %v", a.Object["metadata"])
	}
	if _, has := a.Object["status"]; has {
		t.Fatalf("create must drop status for kinds with a status subresource")
	}
	if err := c.Create(bg, widget("a")); !apierrors.IsAlreadyExists(err) {
		t.Fatalf("second create: want AlreadyExists, got %v", err)
	}
	nons := widget("b")
	nons.SetNamespace("nope")
	if err := c.Create(bg, nons); !apierrors.IsNotFound(err) {
		t.Fatalf("create in missing namespace: want NotFound, got %v", err)
	}
	empty := widget("c")
	empty.SetNamespace("")
	if err := c.Create(bg, empty); err == nil {
		t.Fatalf("namespaced kind without namespace must be rejected")
	}
	// cluster-scoped kind with a namespace: accepted, namespace cleared
	cw := &unstructured.Unstructured{Object: map[string]any{}}
	cw.SetGroupVersionKind(GVKClusterWidget)
	cw.SetName("cw")
	cw.SetNamespace(NSMain)
	mustCreate(t, c, cw)
	if cw.GetNamespace() != "" {
		t.Fatalf("namespace of a cluster-scoped object must be cleared, got %q", cw.GetNamespace())
	}
	got := &unstructured.Unstructured{}
	got.SetGroupVersionKind(GVKClusterWidget)
	if err := c.Get(bg, client.ObjectKey{Namespace: "whatever", Name: "cw"}, got); err != nil {
		t.Fatalf("reads of cluster-scoped kinds ignore the namespace: %v", err)
	}
	ghost := &unstructured.Unstructured{Object: map[string]any{}}
	ghost.SetGroupVersionKind(GVKGhost)
	ghost.SetName("g")
	ghost.SetNamespace(NSMain)
	if err := c.Create(bg, ghost); err == nil {
		t.Fatalf("unregistered kind must be rejected")
	}
}

func TestModelUpdateConcurrencyGenerationStatusSplit(t *testing.T) {
	w := NewWorld()
	c := w.Client
	a := widget("a")
	mustCreate(t, c, a)
	stale := a.DeepCopy()
	// spec change: generation++ and rv changes
	a.Object["spec"].(map[string]any)["size"] = int64(2)
	if err := c.Update(bg, a); err != nil {
		t.Fatal(err)
	}
	if a.GetGeneration() != 2 {
		t.Fatalf("generation after spec change = %d, want 2", a.GetGeneration())
	}
	// stale resourceVersion: conflict
	stale.SetLabels(map[string]string{"x": "y"})
	if err := c.Update(bg, stale); !apierrors.IsConflict(err) {
		t.Fatalf("stale update: want Conflict, got %v", err)
	}
	// metadata-only change: no generation bump
	a.SetLabels(map[string]string{"x": "y"})
	if err := c.Update(bg, a); err != nil {
		t.Fatal(err)
	}
	if a.GetGeneration() != 2 {
		t.Fatalf("label change must not bump generation")
	}
	// Update ignores status; Status().Update ignores spec and does not bump generation
	a.Object["status"] = map[string]any{"phase": "Ready"}
	a.Object["spec"].(map[string]any)["size"] = int64(3)
	if err := c.Status().Update(bg, a); err != nil {
		t.Fatal(err)
	}
	cur := w.Store.Peek(kubesim.Key{Group: WidgetGroup, Kind: "Widget", Namespace: NSMain, Name: "a"})
	if cur["spec"].(map[string]any)["size"] != int64(2) || Generation(cur) != 2 {
		t.Fatalf("status update must not touch spec/generation: %v", cur)
	}
	if cur["status"].(map[string]any)["phase"] != "Ready" {
		t.Fatalf("status update lost")
	}
	b := U(cur)
	b.Object["status"] = map[string]any{"phase": "Other"}
	if err := c.Update(bg, b); err != nil {
		t.Fatal(err)
	}
	cur = w.Store.Peek(kubesim.Key{Group: WidgetGroup, Kind: "Widget", Namespace: NSMain, Name: "a"})
	if cur["status"].(map[string]any)["phase"] != "Ready" {
		t.Fatalf("main-resource update must not change status")
	}
	// no-op write keeps the resourceVersion (etcd3 GuaranteedUpdate short-circuit)
	rv := RVOf(cur)
	if err := c.Update(bg, U(cur)); err != nil {
		t.Fatal(err)
	}
	if RVOf(w.Store.Peek(kubesim.Key{Group: WidgetGroup, Kind: "Widget", Namespace: NSMain, Name: "a"})) != rv {
		t.Fatalf("no-op update must not change the resourceVersion")
	}
}

func TestModelPatch(t *testing.T) {
	w := NewWorld()
	c := w.Client
	cm := &corev1.ConfigMap{ObjectMeta: metav1.ObjectMeta{Name: "cm", Namespace: NSMain, Labels: map[string]string{"a": "1", "b": "2"}}, Data: map[string]string{"k": "v"}}
	mustCreate(t, c, cm)
	// RFC 7386: null deletes, others merge
	if err := c.Patch(bg, cm, client.RawPatch(types.MergePatchType, []byte(`{"metadata":{"labels":{"a":null,"c":"3"}},"data":{"k2":"v2"}}`))); err != nil {
		t.Fatal(err)
	}
	if _, has := cm.Labels["a"]; has || cm.Labels["b"] != "2" || cm.Labels["c"] != "3" || cm.Data["k"] != "v" || cm.Data["k2"] != "v2" {
		t.Fatalf("merge patch result wrong: %v %v", cm.Labels, cm.Data)
	}
	// merge patch with a stale resourceVersion: conflict; with the current one: fine
	if err := c.Patch(bg, cm, client.RawPatch(types.MergePatchType, []byte(`{"metadata":{"resourceVersion":"1","labels":{"z":"z"}}}`))); !apierrors.IsConflict(err) {
		t.Fatalf("merge patch with stale resourceVersion: want Conflict, got %v", err)
	}
	// MergeFrom computes a diff
	old := cm.DeepCopy()
	cm.Labels["d"] = "4"
	if err := c.Patch(bg, cm, client.MergeFrom(old)); err != nil {
		t.Fatal(err)
	}
	// JSON patch
	if err := c.Patch(bg, cm, client.RawPatch(types.JSONPatchType, []byte(`[{"op":"remove","path":"/data/k"},{"op":"add","path":"/data/n","value":"x"}]`))); err != nil {
		t.Fatal(err)
	}
	if _, has := cm.Data["k"]; has || cm.Data["n"] != "x" {
		t.Fatalf("json patch result wrong: %v", cm.Data)
	}
	missing := &corev1.ConfigMap{ObjectMeta: metav1.ObjectMeta{Name: "nope", Namespace: NSMain}}
	if err := c.Patch(bg, missing, client.RawPatch(types.MergePatchType, []byte(`{}`))); !apierrors.IsNotFound(err) {
		t.Fatalf("merge patch of a missing object: want NotFound, got %v", err)
	}
}

func TestModelApplyOwnerReferencesAndFieldOwnership(t *testing.T) {
	w := NewWorld()
	c := w.Client
	apply := func(manager string, force bool, body string) error {
		u := &unstructured.Unstructured{}
		u.SetGroupVersionKind(GVKConfigMap)
		u.SetName("cm")
		u.SetNamespace(NSMain)
		opts := []client.PatchOption{client.FieldOwner(manager)}
		if force {
			opts = append(opts, client.ForceOwnership)
		}
		return c.Patch(bg, u, client.RawPatch(types.ApplyPatchType, []byte(body)), opts...)
	}
	base := `{"apiVersion":"v1","kind":"ConfigMap","metadata":{"name":"cm","namespace":"ns-a"%s},"data":{%s}}`
	if err := apply("m1", false, sprintf(base, `,"ownerReferences":[{"apiVersion":"v1","kind":"ConfigMap","name":"o1","uid":"u1"}]`, `"a":"1","b":"2"`)); err != nil {
		t.Fatalf("apply creates: %v", err)
	}
	// another manager adds an owner reference with a different uid: the list is a map-list keyed by uid, both stay
	if err := apply("m2", false, sprintf(base, `,"ownerReferences":[{"apiVersion":"v1","kind":"ConfigMap","name":"o2","uid":"u2"}]`, `"c":"3"`)); err != nil {
		t.Fatalf("apply by second manager: %v", err)
	}
	cur := w.Store.Peek(kubesim.Key{Kind: "ConfigMap", Namespace: NSMain, Name: "cm"})
	if len(OwnerRefs(cur)) != 2 {
		t.Fatalf("ownerReferences must merge by uid, got %v", OwnerRefs(cur))
	}
	// m2 changing m1's field conflicts unless forced
	if err := apply("m2", false, sprintf(base, "", `"a":"other","c":"3"`)); !apierrors.IsConflict(err) {
		t.Fatalf("apply conflict expected, got %v", err)
	}
	if err := apply("m2", true, sprintf(base, "", `"a":"other","c":"3"`)); err != nil {
		t.Fatalf("forced apply: %v", err)
	}
	// m1 drops field b from its configuration: removed (it was only m1's)
	if err := apply("m1", false, sprintf(base, `,"ownerReferences":[{"apiVersion":"v1","kind":"ConfigMap","name":"o1","uid":"u1"}]`, ``)); err != nil {
		t.Fatalf("apply dropping a field: %v", err)
	}
	cur = w.Store.Peek(kubesim.Key{Kind: "ConfigMap", Namespace: NSMain, Name: "cm"})
	data := cur["data"].(map[string]any)
	if _, has := data["b"]; has {
		t.Fatalf("a field dropped from the only owner's configuration must be removed: %v", data)
	}
	if data["a"] != "other" || data["c"] != "3" {
		t.Fatalf("fields of the other manager must stay: %v", data)
	}
}

func TestModelObjectMetaValidation(t *testing.T) {
	w := NewWorld()
	c := w.Client
	tr := true
	cm := &corev1.ConfigMap{ObjectMeta: metav1.ObjectMeta{Name: "cm", Namespace: NSMain, OwnerReferences: []metav1.OwnerReference{
		{APIVersion: "v1", Kind: "ConfigMap", Name: "a", UID: "u1", Controller: &tr},
		{APIVersion: "v1", Kind: "ConfigMap", Name: "b", UID: "u2", Controller: &tr},
	}}}
	if err := c.Create(bg, cm); !apierrors.IsInvalid(err) {
		t.Fatalf("two controller references: want Invalid, got %v", err)
	}
	cm.OwnerReferences = []metav1.OwnerReference{{APIVersion: "v1", Kind: "ConfigMap", Name: "a"}}
	if err := c.Create(bg, cm); !apierrors.IsInvalid(err) {
		t.Fatalf("owner reference without uid: want Invalid, got %v", err)
	}
	rej := widget("rej")
	rej.Object["spec"].(map[string]any)["rejectMe"] = true
	if err := c.Create(bg, rej, client.DryRunAll); !apierrors.IsInvalid(err) {
		t.Fatalf("rejection marker under dry run: want Invalid, got %v", err)
	}
	ok := widget("ok")
	if err := c.Create(bg, ok, client.DryRunAll); err != nil {
		t.Fatal(err)
	}
	if w.Store.Peek(kubesim.Key{Group: WidgetGroup, Kind: "Widget", Namespace: NSMain, Name: "ok"}) != nil {
		t.Fatalf("dry run must not persist")
	}
}

func TestModelDeleteFinalizersPreconditions(t *testing.T) {
	w := NewWorld()
	c := w.Client
	cm := &corev1.ConfigMap{ObjectMeta: metav1.ObjectMeta{Name: "cm", Namespace: NSMain, Finalizers: []string{"x/y"}}}
	mustCreate(t, c, cm)
	wrongUID := types.UID("nope")
	if err := c.Delete(bg, cm, client.Preconditions{UID: &wrongUID}); !apierrors.IsConflict(err) {
		t.Fatalf("delete with wrong uid precondition: want Conflict, got %v", err)
	}
	wrongRV := "1"
	if err := c.Delete(bg, cm, client.Preconditions{ResourceVersion: &wrongRV}); !apierrors.IsConflict(err) {
		t.Fatalf("delete with wrong rv precondition: want Conflict, got %v", err)
	}
	uid, rv := cm.UID, cm.ResourceVersion
	if err := c.Delete(bg, cm, client.Preconditions{UID: &uid, ResourceVersion: &rv}); err != nil {
		t.Fatal(err)
	}
	k := kubesim.Key{Kind: "ConfigMap", Namespace: NSMain, Name: "cm"}
	cur := w.Store.Peek(k)
	if cur == nil || kubesim.MetaString(cur, "deletionTimestamp") == "" || RVOf(cur) == rv {
		t.Fatalf("delete with finalizers must keep the object, set deletionTimestamp and bump rv: %v", cur)
	}
	if err := c.Create(bg, &corev1.ConfigMap{ObjectMeta: metav1.ObjectMeta{Name: "cm", Namespace: NSMain}}); !apierrors.IsAlreadyExists(err) {
		t.Fatalf("create while terminating: want AlreadyExists, got %v", err)
	}
	// removing the last finalizer removes the object
	u := U(cur)
	u.SetFinalizers(nil)
	if err := c.Update(bg, u); err != nil {
		t.Fatal(err)
	}
	if w.Store.Peek(k) != nil {
		t.Fatalf("object must be gone after the last finalizer is removed")
	}
	if err := c.Delete(bg, cm); !apierrors.IsNotFound(err) {
		t.Fatalf("delete of a missing object: want NotFound, got %v", err)
	}
}

func TestModelTypedRoundTripAndList(t *testing.T) {
	w := NewWorld()
	c := w.Client
	os := &corev1alpha1.ObjectSet{ObjectMeta: metav1.ObjectMeta{Name: "os", Namespace: NSMain}}
	os.Spec.Phases = []corev1alpha1.ObjectSetTemplatePhase{{Name: "p", Objects: []corev1alpha1.ObjectSetObject{{Object: *widget("w")}}}}
	mustCreate(t, c, os)
	got := &corev1alpha1.ObjectSet{}
	if err := c.Get(bg, client.ObjectKeyFromObject(os), got); err != nil {
		t.Fatal(err)
	}
	if got.Spec.Phases[0].Objects[0].Object.Object["spec"].(map[string]any)["size"] != int64(1) {
		t.Fatalf("integers must stay int64 through the store: %#v", got.Spec.Phases[0].Objects[0].Object.Object["spec"])
	}
	// list with label selector and namespace
	l := &corev1alpha1.ObjectSetList{}
	if err := c.List(bg, l, client.InNamespace(NSMain), client.MatchingLabels{"nope": "x"}); err != nil || len(l.Items) != 0 {
		t.Fatalf("label-selected list: %v %d", err, len(l.Items))
	}
	if err := c.List(bg, l, client.InNamespace(NSMain)); err != nil || len(l.Items) != 1 {
		t.Fatalf("list: %v %d", err, len(l.Items))
	}
}

func TestModelTraceAndFaults(t *testing.T) {
	w := NewWorld()
	c := w.Client
	n := len(w.Store.Trace)
	cm := &corev1.ConfigMap{ObjectMeta: metav1.ObjectMeta{Name: "cm", Namespace: NSMain}}
	w.Store.BeforeCall = func(call *kubesim.Call) kubesim.Fault {
		if call.Verb == "create" {
			return kubesim.FaultLostResponse
		}
		return kubesim.FaultNone
	}
	w.Store.BeginPass(1) // faults are only injected into calls of a reconcile pass
	err := c.Create(bg, cm)
	w.Store.EndPass()
	w.Store.BeforeCall = nil
	if err == nil {
		t.Fatalf("lost response must surface as an error")
	}
	if w.Store.Peek(kubesim.Key{Kind: "ConfigMap", Namespace: NSMain, Name: "cm"}) == nil {
		t.Fatalf("lost response: the effect must have happened")
	}
	if len(w.Store.Trace) != n+1 || !w.Store.Trace[n].Injected || w.Store.Trace[n].Post == nil {
		t.Fatalf("trace must record the faulted call with its effect")
	}
}
