// Package engine wires Package Operator's real controllers to the kubesim API model
// and runs reconcile passes, actors and faults deterministically.
package engine

import (
	"context"
	"fmt"
	hypershiftv1beta1 "package-operator.run/internal/controllers/hostedclusters/hypershift/v1beta1"
	"runtime/debug"
	"sort"

	"github.com/go-logr/logr"
	corev1 "k8s.io/api/core/v1"
	apierrors "k8s.io/apimachinery/pkg/api/errors"
	"k8s.io/apimachinery/pkg/labels"
	"k8s.io/apimachinery/pkg/runtime"
	"k8s.io/apimachinery/pkg/runtime/schema"
	ctrl "sigs.k8s.io/controller-runtime"
	"sigs.k8s.io/controller-runtime/pkg/client"
	"sigs.k8s.io/controller-runtime/pkg/client/apiutil"
	"sigs.k8s.io/controller-runtime/pkg/handler"
	"sigs.k8s.io/controller-runtime/pkg/predicate"
	"sigs.k8s.io/controller-runtime/pkg/source"

	corev1alpha1 "package-operator.run/apis/core/v1alpha1"
	manifestsv1alpha1 "package-operator.run/apis/manifests/v1alpha1"
	"package-operator.run/internal/apis/manifests"
	"package-operator.run/internal/constants"
	"package-operator.run/internal/dynamiccache"

	"package-operator.run/verifharness/kubesim"
)

const (
	PKOGroup    = "package-operator.run"
	WidgetGroup = "verif.example"
	NSMain      = "ns-a"
	NSOther     = "ns-b"
)

var (
	GVKConfigMap     = schema.GroupVersionKind{Version: "v1", Kind: "ConfigMap"}
	GVKSecret        = schema.GroupVersionKind{Version: "v1", Kind: "Secret"}
	GVKNamespace     = schema.GroupVersionKind{Version: "v1", Kind: "Namespace"}
	GVKWidget        = schema.GroupVersionKind{Group: WidgetGroup, Version: "v1", Kind: "Widget"}
	GVKClusterWidget = schema.GroupVersionKind{Group: WidgetGroup, Version: "v1", Kind: "ClusterWidget"}
	GVKGhost         = schema.GroupVersionKind{Group: WidgetGroup, Version: "v1", Kind: "Ghost"}
)

func pkoGVK(kind string) schema.GroupVersionKind {
	return corev1alpha1.GroupVersion.WithKind(kind)
}

// Kinds is the fixed type table of the model.
func Kinds() []kubesim.KindInfo {
	ks := []kubesim.KindInfo{
		{GVK: GVKConfigMap, Namespaced: true},
		{GVK: GVKSecret, Namespaced: true},
		{GVK: GVKNamespace, Namespaced: false, HasStatus: true},
		{GVK: GVKWidget, Namespaced: true, HasStatus: true, Generation: true, OtherVersions: []string{"v1beta1"}},
		{GVK: GVKClusterWidget, Namespaced: false, HasStatus: true, Generation: true},
	}
	for _, k := range []string{"ObjectSet", "ObjectSetPhase", "ObjectDeployment", "Package", "ObjectTemplate"} {
		ks = append(ks, kubesim.KindInfo{GVK: pkoGVK(k), Namespaced: true, HasStatus: true, Generation: true})
		ks = append(ks, kubesim.KindInfo{GVK: pkoGVK("Cluster" + k), Namespaced: false, HasStatus: true, Generation: true})
	}
	// HyperShift's HostedCluster: only read, by the environment sink, to tell which namespace belongs to which hosted cluster
	ks = append(ks, kubesim.KindInfo{GVK: GVKHostedCluster, Namespaced: true, HasStatus: true, Generation: true})
	ks = append(ks, kubesim.KindInfo{GVK: pkoGVK("ObjectSlice"), Namespaced: true, Generation: true})
	ks = append(ks, kubesim.KindInfo{GVK: pkoGVK("ClusterObjectSlice"), Namespaced: false, Generation: true})
	return ks
}

// NewScheme builds the scheme the manager uses (core + PKO APIs).
func NewScheme() *runtime.Scheme {
	s := runtime.NewScheme()
	_ = corev1.AddToScheme(s)
	_ = corev1alpha1.AddToScheme(s)
	_ = manifestsv1alpha1.AddToScheme(s)
	_ = hypershiftv1beta1.AddToScheme(s)
	return s
}

// GVKHostedCluster is HyperShift's HostedCluster kind.
var GVKHostedCluster = schema.GroupVersionKind{Group: "hypershift.openshift.io", Version: "v1beta1", Kind: "HostedCluster"}

// DynCache models PKO's dynamic cache contract over the store: refuses unwatched kinds,
// serves label-selected fresh reads, tracks owners per kind.
type DynCache struct {
	w      *World
	owners map[schema.GroupVersionKind]map[dynamiccache.OwnerReference]struct{}
	reader *kubesim.Client
	// Freed records Free calls (owner uid) for monitors.
	Freed []string
}

func newDynCache(w *World) *DynCache {
	sel := labels.SelectorFromSet(labels.Set{constants.DynamicCacheLabel: "True"})
	r := w.Store.NewClient("cache")
	r.Filter = func(o map[string]any) bool { return sel.Matches(labels.Set(kubesim.LabelsOf(o))) }
	return &DynCache{w: w, owners: map[schema.GroupVersionKind]map[dynamiccache.OwnerReference]struct{}{}, reader: r}
}

func (d *DynCache) ownerRef(owner client.Object) (dynamiccache.OwnerReference, error) {
	gvk, err := apiutil.GVKForObject(owner, d.w.Scheme)
	if err != nil {
		return dynamiccache.OwnerReference{}, err
	}
	return dynamiccache.OwnerReference{GroupKind: gvk.GroupKind(), UID: owner.GetUID(), Name: owner.GetName(), Namespace: owner.GetNamespace()}, nil
}

func (d *DynCache) Watch(_ context.Context, owner client.Object, obj runtime.Object) error {
	gvk, err := apiutil.GVKForObject(obj, d.w.Scheme)
	if err != nil {
		return err
	}
	if d.w.Store.Kind(gvk.GroupKind()) == nil {
		return fmt.Errorf("getting informer from InformerMap: no matches for kind %q", gvk.Kind)
	}
	ref, err := d.ownerRef(owner)
	if err != nil {
		return err
	}
	if d.owners[gvk] == nil {
		d.owners[gvk] = map[dynamiccache.OwnerReference]struct{}{}
	}
	d.owners[gvk][ref] = struct{}{}
	return nil
}

func (d *DynCache) Free(_ context.Context, owner client.Object) error {
	ref, err := d.ownerRef(owner)
	if err != nil {
		return err
	}
	d.Freed = append(d.Freed, string(owner.GetUID()))
	for gvk, refs := range d.owners {
		delete(refs, ref)
		if len(refs) == 0 {
			delete(d.owners, gvk)
		}
	}
	return nil
}

func (d *DynCache) OwnersForGKV(gvk schema.GroupVersionKind) []dynamiccache.OwnerReference {
	var out []dynamiccache.OwnerReference
	for r := range d.owners[gvk] {
		out = append(out, r)
	}
	sort.Slice(out, func(i, j int) bool { return out[i].Namespace+"/"+out[i].Name < out[j].Namespace+"/"+out[j].Name })
	return out
}

// Watched reports whether anybody watches the kind.
func (d *DynCache) Watched(gvk schema.GroupVersionKind) bool { return len(d.owners[gvk]) > 0 }

// OwnerCount returns the number of (kind, owner) registrations held for the owner uid.
func (d *DynCache) OwnerCount(uid string) int {
	n := 0
	for _, refs := range d.owners {
		for r := range refs {
			if string(r.UID) == uid {
				n++
			}
		}
	}
	return n
}

func (d *DynCache) Get(ctx context.Context, key client.ObjectKey, out client.Object, opts ...client.GetOption) error {
	gvk, err := apiutil.GVKForObject(out, d.w.Scheme)
	if err != nil {
		return err
	}
	if !d.Watched(gvk) {
		return &dynamiccache.CacheNotStartedError{}
	}
	return d.reader.Get(ctx, key, out, opts...)
}

func (d *DynCache) List(ctx context.Context, out client.ObjectList, opts ...client.ListOption) error {
	gvk, err := apiutil.GVKForObject(out, d.w.Scheme)
	if err != nil {
		return err
	}
	if len(gvk.Kind) > 4 && gvk.Kind[len(gvk.Kind)-4:] == "List" {
		gvk.Kind = gvk.Kind[:len(gvk.Kind)-4]
	}
	if !d.Watched(gvk) {
		return &dynamiccache.CacheNotStartedError{}
	}
	return d.reader.List(ctx, out, opts...)
}

type inertSource struct{}

func (inertSource) Start(context.Context, interface{}) error { return nil }

func (d *DynCache) Source(handler.EventHandler, ...predicate.Predicate) source.Source {
	return source.Func(nil)
}

// World is one simulated cluster plus one PKO "process".
type World struct {
	Scheme   *runtime.Scheme
	Store    *kubesim.Store
	Client   *kubesim.Client // manager client (PKO's own APIs + writes)
	Uncached *kubesim.Client
	Cache    *DynCache
	Ctx      context.Context

	ctrls map[string]Reconciler

	// DeployClient is the (possibly lagging) client of the ObjectDeployment controllers: objects in
	// HiddenFromDeploy are not yet visible to its reads (informer has not delivered the create yet).
	DeployClient     *kubesim.Client
	HiddenFromDeploy map[kubesim.Key]bool

	PassSeq int
	Passes  []*PassInfo

	// Puller / Env survive restarts (they model the registry and the cluster environment).
	Puller *Puller
	Env    *manifests.PackageEnvironment
}

// Reconciler is the common shape of all controllers.
type Reconciler interface {
	Reconcile(ctx context.Context, req ctrl.Request) (ctrl.Result, error)
}

// PassInfo describes one executed reconcile pass.
type PassInfo struct {
	ID         int
	Controller string
	Req        ctrl.Request
	Result     ctrl.Result
	Err        string
	Crashed    bool
	FirstSeq   int // index into Store.Trace of the first call of the pass
	LastSeq    int // one past the last call
	Panic      any
	PanicStack string
}

// NewWorld creates a store with the two namespaces and a fresh PKO process.
func NewWorld() *World {
	scheme := NewScheme()
	w := &World{Scheme: scheme, Ctx: logr.NewContext(context.Background(), logr.Discard())}
	w.Store = kubesim.NewStore(scheme, Kinds())
	w.Store.CurActor = "setup"
	w.Client = w.Store.NewClient("client")
	w.Uncached = w.Store.NewClient("uncached")
	w.HiddenFromDeploy = map[kubesim.Key]bool{}
	w.DeployClient = w.Store.NewClient("client")
	w.DeployClient.Filter = func(o map[string]any) bool {
		if len(w.HiddenFromDeploy) == 0 {
			return true
		}
		gvk := GVKOf(o)
		k, _, _ := w.Store.KeyFor(gvk, kubesim.MetaString(o, "namespace"), kubesim.MetaString(o, "name"))
		return !w.HiddenFromDeploy[k]
	}
	for _, ns := range []string{NSMain, NSOther} {
		n := &corev1.Namespace{}
		n.Name = ns
		if err := w.Client.Create(w.Ctx, n); err != nil {
			panic(err)
		}
	}
	w.Restart()
	return w
}

// Calls returns the trace slice of a pass.
func (w *World) Calls(p *PassInfo) []*kubesim.Call {
	all := w.Store.Trace[p.FirstSeq:p.LastSeq]
	for _, c := range all {
		if c.Pass != p.ID {
			// a pass of another controller ran inside this one: leave its calls out
			var own []*kubesim.Call
			for _, c := range all {
				if c.Pass == p.ID {
					own = append(own, c)
				}
			}
			return own
		}
	}
	return all
}

// RunPass runs one Reconcile of the named controller for the request, with crash recovery.
func (w *World) RunPass(controller string, req ctrl.Request) *PassInfo {
	c := w.ctrls[controller]
	if c == nil {
		panic("unknown controller " + controller)
	}
	w.PassSeq++
	p := &PassInfo{ID: w.PassSeq, Controller: controller, Req: req, FirstSeq: len(w.Store.Trace)}
	w.Passes = append(w.Passes, p)
	prevActor := w.Store.CurActor
	w.Store.CurActor = "pko"
	w.Store.BeginPass(p.ID)
	func() {
		defer func() {
			if r := recover(); r != nil {
				if _, ok := r.(kubesim.CrashSentinel); ok {
					p.Crashed = true
					return
				}
				p.Panic = r
				p.PanicStack = string(debug.Stack())
				p.Err = fmt.Sprintf("panic: %v", r)
			}
		}()
		res, err := c.Reconcile(w.Ctx, req)
		p.Result = res
		if err != nil {
			p.Err = err.Error()
		}
	}()
	w.Store.EndPass()
	w.Store.CurActor = prevActor
	p.LastSeq = len(w.Store.Trace)
	if p.Crashed {
		w.Restart()
	}
	return p
}

// IsNotFound is re-exported for convenience.
func IsNotFound(err error) bool { return apierrors.IsNotFound(err) }
