package engine

import (
	"fmt"
	"sort"
	"strconv"

	"k8s.io/apimachinery/pkg/apis/meta/v1/unstructured"
	"k8s.io/apimachinery/pkg/runtime/schema"
	"sigs.k8s.io/controller-runtime/pkg/client"

	corev1alpha1 "package-operator.run/apis/core/v1alpha1"
	"package-operator.run/internal/constants"

	"package-operator.run/verifharness/kubesim"
)

// PoolObj describes one managed-object identity of the pool scenarios draw from.
type PoolObj struct {
	GVK       schema.GroupVersionKind
	Namespace string // "" = let PKO default it
	Name      string
}

// Key returns the storage key given the owner's namespace used for defaulting.
func (p PoolObj) Key(s *kubesim.Store, ownerNS string) kubesim.Key {
	ns := p.Namespace
	if ns == "" {
		ns = ownerNS
	}
	k, _, ok := s.KeyFor(p.GVK, ns, p.Name)
	if !ok {
		return kubesim.Key{Group: p.GVK.Group, Kind: p.GVK.Kind, Namespace: ns, Name: p.Name}
	}
	return k
}

// Pool is the default identity pool: 4 ConfigMaps and 3 Widgets in the owner's namespace.
func Pool() []PoolObj {
	var out []PoolObj
	for i := 0; i < 4; i++ {
		out = append(out, PoolObj{GVK: GVKConfigMap, Name: "cm-" + strconv.Itoa(i)})
	}
	for i := 0; i < 3; i++ {
		out = append(out, PoolObj{GVK: GVKWidget, Name: "w-" + strconv.Itoa(i)})
	}
	// identities reserved for phases handled through the annotation owner strategy (multi-cluster
	// phase controller): an object is only ever managed through one owner strategy.
	out = append(out, PoolObj{GVK: GVKConfigMap, Name: "rcm-0"}, PoolObj{GVK: GVKConfigMap, Name: "rcm-1"}, PoolObj{GVK: GVKWidget, Name: "rw-0"})
	return out
}

// NativePoolSize is the number of pool identities managed through native ownerReferences.
const NativePoolSize = 7

// RemotePoolSize is the number of identities reserved for the annotation strategy.
const RemotePoolSize = 3

// Desired builds the desired manifest of a pool object; variant changes a data field
// (so different revisions can carry different content).
func Desired(p PoolObj, variant int) unstructured.Unstructured {
	u := unstructured.Unstructured{Object: map[string]any{}}
	u.SetGroupVersionKind(p.GVK)
	u.SetName(p.Name)
	if p.Namespace != "" {
		u.SetNamespace(p.Namespace)
	}
	switch p.GVK.Kind {
	case "ConfigMap", "Secret":
		u.Object["data"] = map[string]any{"v": "variant-" + strconv.Itoa(variant)}
	case "Namespace":
	default:
		u.Object["spec"] = map[string]any{"size": int64(variant)}
	}
	u.SetLabels(map[string]string{"app": "pool"})
	return u
}

// ObjectSetObject wraps a manifest.
func ObjectSetObject(u unstructured.Unstructured, cp corev1alpha1.CollisionProtection) corev1alpha1.ObjectSetObject {
	return corev1alpha1.ObjectSetObject{Object: u, CollisionProtection: cp}
}

// Ref is an owner reference description used by third-party actions.
type Ref struct {
	APIVersion, Kind, Name, UID string
	Controller                  bool
}

func (r Ref) asMap() map[string]any {
	m := map[string]any{"apiVersion": r.APIVersion, "kind": r.Kind, "name": r.Name, "uid": r.UID}
	if r.Controller {
		m["controller"] = true
		m["blockOwnerDeletion"] = true
	}
	return m
}

// OwnerRefs reads metadata.ownerReferences.
func OwnerRefs(o map[string]any) []Ref {
	md, _ := o["metadata"].(map[string]any)
	l, _ := md["ownerReferences"].([]any)
	var out []Ref
	for _, e := range l {
		m, _ := e.(map[string]any)
		r := Ref{}
		r.APIVersion, _ = m["apiVersion"].(string)
		r.Kind, _ = m["kind"].(string)
		r.Name, _ = m["name"].(string)
		r.UID, _ = m["uid"].(string)
		r.Controller, _ = m["controller"].(bool)
		out = append(out, r)
	}
	return out
}

// ControllerRef returns the controller owner reference, if any.
func ControllerRef(o map[string]any) (Ref, bool) {
	for _, r := range OwnerRefs(o) {
		if r.Controller {
			return r, true
		}
	}
	return Ref{}, false
}

// RevisionOf parses the package-operator.run/revision annotation: (value, present&&numeric, raw).
func RevisionOf(o map[string]any) (int64, bool, string) {
	a := kubesim.AnnotationsOf(o)
	raw, ok := a[corev1alpha1.ObjectSetRevisionAnnotation]
	if !ok || raw == "" {
		return 0, true, raw
	}
	v, err := strconv.ParseInt(raw, 10, 64)
	if err != nil {
		return 0, false, raw
	}
	return v, true, raw
}

// HasCacheLabel reports whether the dynamic cache label is set.
func HasCacheLabel(o map[string]any) bool {
	return kubesim.LabelsOf(o)[constants.DynamicCacheLabel] == "True"
}

// UID / RV helpers.
func UID(o map[string]any) string  { return kubesim.MetaString(o, "uid") }
func RVOf(o map[string]any) string { return kubesim.MetaString(o, "resourceVersion") }

// U wraps a map as unstructured (no copy).
func U(m map[string]any) *unstructured.Unstructured { return &unstructured.Unstructured{Object: m} }

// ActAs runs fn with calls attributed to the given actor (outside any pass).
func (w *World) ActAs(actor string, fn func(c client.Client)) {
	prevA, prevP := w.Store.CurActor, w.Store.CurPass
	w.Store.CurActor = actor
	w.Store.CurPass = 0
	cl := w.Store.NewClient("client")
	cl.Actor = actor
	fn(cl)
	w.Store.CurActor, w.Store.CurPass = prevA, prevP
}

// ListKeys returns the sorted keys of one kind.
func (w *World) ListKeys(group, kind string) []kubesim.Key {
	var out []kubesim.Key
	for _, k := range w.Store.Keys() {
		if k.Group == group && k.Kind == kind {
			out = append(out, k)
		}
	}
	sort.Slice(out, func(i, j int) bool { return out[i].String() < out[j].String() })
	return out
}

// Conditions returns status.conditions of a stored object as type -> {status, reason, observedGeneration}.
type Cond struct {
	Status, Reason, Message string
	ObservedGeneration      int64
}

func Conditions(o map[string]any) map[string]Cond {
	out := map[string]Cond{}
	st, _ := o["status"].(map[string]any)
	l, _ := st["conditions"].([]any)
	for _, e := range l {
		m, _ := e.(map[string]any)
		t, _ := m["type"].(string)
		c := Cond{}
		c.Status, _ = m["status"].(string)
		c.Reason, _ = m["reason"].(string)
		c.Message, _ = m["message"].(string)
		c.ObservedGeneration, _ = m["observedGeneration"].(int64)
		out[t] = c
	}
	return out
}

// Generation reads metadata.generation.
func Generation(o map[string]any) int64 {
	md, _ := o["metadata"].(map[string]any)
	g, _ := md["generation"].(int64)
	return g
}

func mustNoErr(err error) {
	if err != nil {
		panic(fmt.Sprintf("harness setup error: %v", err))
	}
}

// GVKOf reads apiVersion/kind of a JSON object.
func GVKOf(o map[string]any) schema.GroupVersionKind {
	av, _ := o["apiVersion"].(string)
	k, _ := o["kind"].(string)
	return schema.FromAPIVersionAndKind(av, k)
}

// GroupOfAPIVersion returns the group of an apiVersion string.
func GroupOfAPIVersion(av string) string {
	gv, err := schema.ParseGroupVersion(av)
	if err != nil {
		return "?" + av
	}
	return gv.Group
}
