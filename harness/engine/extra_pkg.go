package engine

import (
	"context"
	"fmt"
	"time"

	"github.com/go-logr/logr"

	"package-operator.run/internal/apis/manifests"
	"package-operator.run/internal/controllers/objecttemplate"
	pkgctrl "package-operator.run/internal/controllers/packages"
	"package-operator.run/internal/packages"
)

// Puller is the scripted image puller: images map to file sets or errors; every pull is counted.
type Puller struct {
	Images map[string]packages.Files
	Errors map[string]string
	Pulls  map[string]int
}

// Pull implements the package controller's imagePuller.
func (p *Puller) Pull(_ context.Context, image string) (*packages.RawPackage, error) {
	p.Pulls[image]++
	if e, ok := p.Errors[image]; ok && e != "" {
		return nil, fmt.Errorf("scripted pull failure: %s", e)
	}
	files, ok := p.Images[image]
	if !ok {
		return nil, fmt.Errorf("scripted: image %s not found", image)
	}
	cp := packages.Files{}
	for k, v := range files {
		cp[k] = append([]byte{}, v...)
	}
	return &packages.RawPackage{Files: cp}, nil
}

func init() {
	extraControllers = append(extraControllers, func(w *World) {
		if w.Puller == nil {
			w.Puller = &Puller{Images: map[string]packages.Files{}, Errors: map[string]string{}, Pulls: map[string]int{}}
		}
		if w.Env == nil {
			w.Env = &manifests.PackageEnvironment{Kubernetes: manifests.PackageEnvironmentKubernetes{Version: "v1.27.0"}}
		}
		log := logr.Discard()
		pc := pkgctrl.NewPackageController(w.DeployClient, w.Uncached, log, w.Scheme, w.Puller, nil, nil, nil)
		pc.SetEnvironment(w.Env)
		w.ctrls[CtrlPackage] = pc
		cpc := pkgctrl.NewClusterPackageController(w.DeployClient, w.Uncached, log, w.Scheme, w.Puller, nil, nil, nil)
		cpc.SetEnvironment(w.Env)
		w.ctrls[CtrlClusterPackage] = cpc

		cfg := objecttemplate.ControllerConfig{OptionalResourceRetryInterval: 11 * time.Second, ResourceRetryInterval: 7 * time.Second}
		ot := objecttemplate.NewObjectTemplateController(w.Client, w.Uncached, log, w.Cache, w.Scheme, w.Store.RESTMapper(), cfg)
		ot.SetEnvironment(w.Env)
		w.ctrls[CtrlObjectTemplate] = ot
		cot := objecttemplate.NewClusterObjectTemplateController(w.Client, w.Uncached, log, w.Cache, w.Scheme, w.Store.RESTMapper(), cfg)
		cot.SetEnvironment(w.Env)
		w.ctrls[CtrlClusterObjectTemplate] = cot
	})
}

// SetEnv changes the environment all environment-aware controllers see.
func (w *World) SetEnv(env *manifests.PackageEnvironment) {
	w.Env = env
	for _, n := range []string{CtrlPackage, CtrlClusterPackage, CtrlObjectTemplate, CtrlClusterObjectTemplate} {
		if s, ok := w.ctrls[n].(interface {
			SetEnvironment(env *manifests.PackageEnvironment)
		}); ok {
			s.SetEnvironment(env)
		}
	}
}
