package engine

// restartExtra builds the controllers that need more wiring (Package, ObjectTemplate).
func (w *World) restartExtra() {
	for _, f := range extraControllers {
		f(w)
	}
}

var extraControllers []func(w *World)

// HasController reports whether a controller of that name is wired.
func (w *World) HasController(name string) bool { return w.ctrls[name] != nil }

// SetController registers a controller under a name.
func (w *World) SetController(name string, r Reconciler) { w.ctrls[name] = r }
