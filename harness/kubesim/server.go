package kubesim

import (
	"encoding/json"
	"fmt"
	"sort"
	"strings"

	jsonpatch "github.com/evanphx/json-patch/v5"
	apierrors "k8s.io/apimachinery/pkg/api/errors"
	"k8s.io/apimachinery/pkg/api/meta"
	"k8s.io/apimachinery/pkg/labels"
	"k8s.io/apimachinery/pkg/runtime/schema"
	utiljson "k8s.io/apimachinery/pkg/util/json"
	"k8s.io/apimachinery/pkg/util/validation/field"
)

type reqOpts struct {
	immediate bool // delete with gracePeriodSeconds=0
	dryRun  bool
	manager string
	force   bool
}

func (s *Store) gr(ki *KindInfo) schema.GroupResource {
	plural := ki.Plural
	if plural == "" {
		plural = strings.ToLower(ki.GVK.Kind) + "s"
	}
	return schema.GroupResource{Group: ki.GVK.Group, Resource: plural}
}

func noKind(gvk schema.GroupVersionKind) error {
	return &meta.NoKindMatchError{GroupKind: gvk.GroupKind(), SearchedVersions: []string{gvk.Version}}
}

// validateMeta mirrors the parts of ValidateObjectMetaAccessor PKO can run into.
func (s *Store) validateObject(ki *KindInfo, o map[string]any) error {
	name := MetaString(o, "name")
	var errs field.ErrorList
	if name == "" {
		errs = append(errs, field.Required(field.NewPath("metadata", "name"), "name or generateName is required"))
	}
	md := getMap(o, "metadata")
	if md != nil {
		if refs, ok := md["ownerReferences"].([]any); ok {
			controllers := 0
			seen := map[string]bool{}
			for i, r := range refs {
				rm, _ := r.(map[string]any)
				p := field.NewPath("metadata", "ownerReferences").Index(i)
				av, _ := rm["apiVersion"].(string)
				kind, _ := rm["kind"].(string)
				n, _ := rm["name"].(string)
				uid, _ := rm["uid"].(string)
				gvk := schema.FromAPIVersionAndKind(av, kind)
				if gvk.Version == "" {
					errs = append(errs, field.Invalid(p.Child("apiVersion"), av, "version must not be empty"))
				}
				if kind == "" {
					errs = append(errs, field.Invalid(p.Child("kind"), kind, "kind must not be empty"))
				}
				if n == "" {
					errs = append(errs, field.Invalid(p.Child("name"), n, "name must not be empty"))
				}
				if uid == "" {
					errs = append(errs, field.Invalid(p.Child("uid"), uid, "uid must not be empty"))
				}
				if c, _ := rm["controller"].(bool); c {
					controllers++
				}
				_ = seen
			}
			if controllers > 1 {
				errs = append(errs, field.Invalid(field.NewPath("metadata", "ownerReferences"), "",
					"Only one reference can have Controller set to true"))
			}
		}
		for _, f := range []string{"labels", "annotations"} {
			if v, present := md[f]; present {
				mm, ok := v.(map[string]any)
				if !ok {
					errs = append(errs, field.Invalid(field.NewPath("metadata", f), "", "must be a map of strings"))
					continue
				}
				for k, x := range mm {
					if _, ok := x.(string); !ok {
						errs = append(errs, field.Invalid(field.NewPath("metadata", f).Key(k), "", "must be a string"))
					}
				}
			}
		}
	}
	// Generated rejection marker: models "the server (admission/validation) rejects this object".
	if sp := getMap(o, "spec"); sp != nil {
		if b, _ := sp["rejectMe"].(bool); b {
			errs = append(errs, field.Invalid(field.NewPath("spec", "rejectMe"), true, "rejected by the server"))
		}
	}
	if len(errs) > 0 {
		return apierrors.NewInvalid(ki.GVK.GroupKind(), name, errs)
	}
	return nil
}

func (s *Store) checkNamespace(ki *KindInfo, ns string, creating bool) error {
	if !ki.Namespaced {
		return nil
	}
	if ns == "" {
		return apierrors.NewBadRequest("an empty namespace may not be set during creation")
	}
	nsObj, ok := s.objs[Key{Group: "", Kind: "Namespace", Name: ns}]
	if !ok {
		return apierrors.NewNotFound(schema.GroupResource{Resource: "namespaces"}, ns)
	}
	if creating && MetaString(nsObj, "deletionTimestamp") != "" {
		return apierrors.NewForbidden(s.gr(ki), "", fmt.Errorf("unable to create new content in namespace %s because it is being terminated", ns))
	}
	return nil
}

func specPart(o map[string]any) map[string]any {
	out := map[string]any{}
	for k, v := range o {
		if k == "metadata" || k == "status" || k == "apiVersion" || k == "kind" {
			continue
		}
		out[k] = v
	}
	return out
}

func withoutRV(o map[string]any) map[string]any {
	c := DeepCopyJSON(o)
	if md := getMap(c, "metadata"); md != nil {
		delete(md, "resourceVersion")
	}
	return c
}

func finalizersOf(o map[string]any) []string {
	md := getMap(o, "metadata")
	if md == nil {
		return nil
	}
	l, _ := md["finalizers"].([]any)
	var out []string
	for _, f := range l {
		if s, ok := f.(string); ok {
			out = append(out, s)
		}
	}
	return out
}

// commit finishes a write: validation, generation, no-op detection, rv, finalizer-driven removal.
// It returns the object as the server would return it and the stored object (nil if removed).
func (s *Store) commit(key Key, ki *KindInfo, old, nw map[string]any, o reqOpts, manager string, applyLeaves map[string]any, isApply bool) (ret, stored map[string]any, err error) {
	if err := s.validateObject(ki, nw); err != nil {
		return nil, old, err
	}
	md := ensureMap(nw, "metadata")
	// pruning empty collections in metadata keeps representation canonical
	for _, f := range []string{"labels", "annotations"} {
		if m, ok := md[f].(map[string]any); ok && len(m) == 0 {
			delete(md, f)
		}
	}
	for _, f := range []string{"ownerReferences", "finalizers"} {
		if l, ok := md[f].([]any); ok && len(l) == 0 {
			delete(md, f)
		}
	}
	delete(md, "managedFields")
	if ki.Generation {
		if old == nil {
			md["generation"] = int64(1)
		} else {
			og, _ := getMap(old, "metadata")["generation"].(int64)
			if !jsonEqual(specPart(old), specPart(nw)) {
				og++
			}
			md["generation"] = og
		}
	} else {
		delete(md, "generation")
	}
	if old != nil {
		md["resourceVersion"] = MetaString(old, "resourceVersion")
		if jsonEqual(old, nw) {
			// storage no-op (etcd3 GuaranteedUpdate short-circuit): nothing changes.
			if isApply && !o.dryRun {
				s.applyOwnership(key, old, nw, manager, applyLeaves)
			}
			return DeepCopyJSON(old), old, nil
		}
	}
	if o.dryRun {
		r := DeepCopyJSON(nw)
		return r, old, nil
	}
	md["resourceVersion"] = s.nextRV()
	if isApply {
		s.applyOwnership(key, old, nw, manager, applyLeaves)
	} else {
		s.recordOwnership(key, old, nw, manager)
	}
	if MetaString(nw, "deletionTimestamp") != "" && len(finalizersOf(nw)) == 0 {
		delete(s.objs, key)
		delete(s.managed, key)
		return DeepCopyJSON(nw), nil, nil
	}
	s.objs[key] = nw
	return DeepCopyJSON(nw), nw, nil
}

func (s *Store) doCreate(obj map[string]any, o reqOpts) (map[string]any, error) {
	gvk := gvkOf(obj)
	name := MetaString(obj, "name")
	ns := MetaString(obj, "namespace")
	key, ki, ok := s.KeyFor(gvk, ns, name)
	if !ok {
		return nil, noKind(gvk)
	}
	if err := s.checkNamespace(ki, ns, true); err != nil {
		return nil, err
	}
	if _, exists := s.objs[key]; exists {
		return nil, apierrors.NewAlreadyExists(s.gr(ki), name)
	}
	nw := DeepCopyJSON(obj)
	md := ensureMap(nw, "metadata")
	if !ki.Namespaced {
		delete(md, "namespace") // EnsureObjectNamespaceMatchesRequestNamespace: cleared for root-scoped requests
	}
	delete(md, "deletionTimestamp")
	delete(md, "deletionGracePeriodSeconds")
	if ki.HasStatus {
		delete(nw, "status")
	}
	if err := s.validateObject(ki, nw); err != nil {
		return nil, err
	}
	if o.dryRun {
		md["uid"] = "dry-run-uid"
		md["creationTimestamp"] = "2024-01-01T00:00:00Z"
		ret, _, err := s.commit(key, ki, nil, nw, o, o.manager, nil, false)
		return ret, err
	}
	md["uid"] = s.nextUID()
	md["creationTimestamp"] = s.now()
	ret, _, err := s.commit(key, ki, nil, nw, o, o.manager, nil, false)
	return ret, err
}

func (s *Store) doUpdate(obj map[string]any, status bool, o reqOpts) (map[string]any, error) {
	gvk := gvkOf(obj)
	name := MetaString(obj, "name")
	ns := MetaString(obj, "namespace")
	key, ki, ok := s.KeyFor(gvk, ns, name)
	if !ok {
		return nil, noKind(gvk)
	}
	old, exists := s.objs[key]
	if !exists {
		return nil, apierrors.NewNotFound(s.gr(ki), name)
	}
	if status && !ki.HasStatus {
		return nil, apierrors.NewNotFound(s.gr(ki), name)
	}
	if rv := MetaString(obj, "resourceVersion"); rv != "" && rv != MetaString(old, "resourceVersion") {
		return nil, apierrors.NewConflict(s.gr(ki), name, fmt.Errorf("the object has been modified; please apply your changes to the latest version and try again"))
	}
	if uid := MetaString(obj, "uid"); uid != "" && uid != MetaString(old, "uid") {
		return nil, apierrors.NewConflict(s.gr(ki), name, fmt.Errorf("Precondition failed: UID in precondition: %v, UID in object meta: %v", uid, MetaString(old, "uid")))
	}
	var nw map[string]any
	if status {
		nw = DeepCopyJSON(old)
		if st, ok := obj["status"]; ok {
			nw["status"] = runtimeDeepCopy(st)
		} else {
			delete(nw, "status")
		}
	} else {
		nw = DeepCopyJSON(obj)
		s.carryImmutable(ki, old, nw)
		if ki.HasStatus {
			if st, ok := old["status"]; ok {
				nw["status"] = runtimeDeepCopy(st)
			} else {
				delete(nw, "status")
			}
		}
	}
	ret, _, err := s.commit(key, ki, old, nw, o, o.manager, nil, false)
	return ret, err
}

func runtimeDeepCopy(v any) any {
	switch t := v.(type) {
	case map[string]any:
		return DeepCopyJSON(t)
	case []any:
		w := map[string]any{"x": t}
		return DeepCopyJSON(w)["x"]
	default:
		return v
	}
}

func (s *Store) carryImmutable(ki *KindInfo, old, nw map[string]any) {
	omd := getMap(old, "metadata")
	md := ensureMap(nw, "metadata")
	for _, f := range []string{"uid", "creationTimestamp", "deletionTimestamp", "deletionGracePeriodSeconds", "generation", "name"} {
		if v, ok := omd[f]; ok {
			md[f] = v
		} else {
			delete(md, f)
		}
	}
	if ki.Namespaced {
		md["namespace"] = omd["namespace"]
	} else {
		delete(md, "namespace")
	}
	nw["apiVersion"] = old["apiVersion"]
	nw["kind"] = old["kind"]
}

func (s *Store) doPatch(gvk schema.GroupVersionKind, ns, name, patchType string, data []byte, status bool, o reqOpts) (map[string]any, error) {
	key, ki, ok := s.KeyFor(gvk, ns, name)
	if !ok {
		return nil, noKind(gvk)
	}
	old, exists := s.objs[key]
	if status && !ki.HasStatus {
		return nil, apierrors.NewNotFound(s.gr(ki), name)
	}
	if patchType == "apply" {
		return s.doApply(key, ki, old, gvk, ns, name, data, status, o)
	}
	if !exists {
		return nil, apierrors.NewNotFound(s.gr(ki), name)
	}
	oldJSON, err := utiljson.Marshal(old)
	if err != nil {
		return nil, err
	}
	var patched []byte
	switch patchType {
	case "merge":
		patched, err = jsonpatch.MergePatch(oldJSON, data)
		if err != nil {
			return nil, apierrors.NewBadRequest(err.Error())
		}
	case "json":
		p, derr := jsonpatch.DecodePatch(data)
		if derr != nil {
			return nil, apierrors.NewBadRequest(derr.Error())
		}
		patched, err = p.Apply(oldJSON)
		if err != nil {
			return nil, apierrors.NewInvalid(ki.GVK.GroupKind(), name, field.ErrorList{field.Invalid(field.NewPath("patch"), string(data), err.Error())})
		}
	default:
		return nil, apierrors.NewBadRequest("unsupported patch type " + patchType)
	}
	var pm map[string]any
	if err := utiljson.Unmarshal(patched, &pm); err != nil {
		return nil, apierrors.NewBadRequest(err.Error())
	}
	dropNulls(pm)
	if rv := MetaString(pm, "resourceVersion"); rv != MetaString(old, "resourceVersion") {
		return nil, apierrors.NewConflict(s.gr(ki), name, fmt.Errorf("the object has been modified; please apply your changes to the latest version and try again"))
	}
	if uid := MetaString(pm, "uid"); uid != MetaString(old, "uid") {
		return nil, apierrors.NewInvalid(ki.GVK.GroupKind(), name, field.ErrorList{field.Invalid(field.NewPath("metadata", "uid"), uid, "field is immutable")})
	}
	var nw map[string]any
	if status {
		nw = DeepCopyJSON(old)
		if st, ok := pm["status"]; ok {
			nw["status"] = st
		} else {
			delete(nw, "status")
		}
	} else {
		nw = pm
		s.carryImmutable(ki, old, nw)
		if ki.HasStatus {
			if st, ok := old["status"]; ok {
				nw["status"] = runtimeDeepCopy(st)
			} else {
				delete(nw, "status")
			}
		}
	}
	ret, _, err := s.commit(key, ki, old, nw, o, o.manager, nil, false)
	return ret, err
}

func (s *Store) doDelete(gvk schema.GroupVersionKind, ns, name string, preUID, preRV *string, propagation string, o reqOpts) error {
	key, ki, ok := s.KeyFor(gvk, ns, name)
	if !ok {
		return noKind(gvk)
	}
	old, exists := s.objs[key]
	if !exists {
		return apierrors.NewNotFound(s.gr(ki), name)
	}
	if preUID != nil && *preUID != MetaString(old, "uid") {
		return apierrors.NewConflict(s.gr(ki), name, fmt.Errorf("Precondition failed: UID in precondition: %v, UID in object meta: %v", *preUID, MetaString(old, "uid")))
	}
	if preRV != nil && *preRV != MetaString(old, "resourceVersion") {
		return apierrors.NewConflict(s.gr(ki), name, fmt.Errorf("Precondition failed: ResourceVersion in precondition: %v, ResourceVersion in object meta: %v", *preRV, MetaString(old, "resourceVersion")))
	}
	if o.dryRun {
		return nil
	}
	nw := DeepCopyJSON(old)
	md := ensureMap(nw, "metadata")
	fins := finalizersOf(nw)
	addFin := func(f string) {
		for _, x := range fins {
			if x == f {
				return
			}
		}
		fins = append(fins, f)
	}
	switch propagation {
	case "Orphan":
		addFin("orphan")
	case "Foreground":
		addFin("foregroundDeletion")
	}
	if len(fins) == 0 && !(s.Graceful[ki.GVK.GroupKind()] && !o.immediate) {
		delete(s.objs, key)
		delete(s.managed, key)
		s.rv++ // a deletion is a state change
		return nil
	}
	if len(fins) > 0 {
		l := make([]any, len(fins))
		for i, f := range fins {
			l[i] = f
		}
		md["finalizers"] = l
	}
	if MetaString(nw, "deletionTimestamp") == "" {
		md["deletionTimestamp"] = s.now()
		md["deletionGracePeriodSeconds"] = int64(0)
	}
	if jsonEqual(old, nw) {
		return nil
	}
	md["resourceVersion"] = s.nextRV()
	s.objs[key] = nw
	return nil
}

func (s *Store) doGet(gvk schema.GroupVersionKind, ns, name string) (map[string]any, error) {
	key, ki, ok := s.KeyFor(gvk, ns, name)
	if !ok {
		return nil, noKind(gvk)
	}
	if ki.Namespaced && ns == "" {
		// the REST client would build a cluster-wide URL with a name: not a valid request
		return nil, apierrors.NewNotFound(s.gr(ki), name)
	}
	o, exists := s.objs[key]
	if !exists {
		return nil, apierrors.NewNotFound(s.gr(ki), name)
	}
	return DeepCopyJSON(o), nil
}

func (s *Store) doList(gvk schema.GroupVersionKind, ns string, sel labels.Selector) ([]map[string]any, error) {
	ki := s.kinds[gvk.GroupKind()]
	if ki == nil {
		return nil, noKind(gvk)
	}
	var keys []Key
	for k := range s.objs {
		if k.Group != gvk.Group || k.Kind != gvk.Kind {
			continue
		}
		if ki.Namespaced && ns != "" && k.Namespace != ns {
			continue
		}
		keys = append(keys, k)
	}
	sort.Slice(keys, func(i, j int) bool { return keys[i].String() < keys[j].String() })
	var out []map[string]any
	for _, k := range keys {
		o := s.objs[k]
		if sel != nil && !sel.Empty() {
			if !sel.Matches(labels.Set(LabelsOf(o))) {
				continue
			}
		}
		out = append(out, DeepCopyJSON(o))
	}
	return out, nil
}

// LabelsOf returns metadata.labels as map[string]string.
func LabelsOf(o map[string]any) map[string]string {
	out := map[string]string{}
	if m := getMap(o, "metadata", "labels"); m != nil {
		for k, v := range m {
			if s, ok := v.(string); ok {
				out[k] = s
			}
		}
	}
	return out
}

// AnnotationsOf returns metadata.annotations as map[string]string.
func AnnotationsOf(o map[string]any) map[string]string {
	out := map[string]string{}
	if m := getMap(o, "metadata", "annotations"); m != nil {
		for k, v := range m {
			if s, ok := v.(string); ok {
				out[k] = s
			}
		}
	}
	return out
}

func parseJSON(data []byte) any {
	var v any
	if err := json.Unmarshal(data, &v); err != nil {
		return string(data)
	}
	return v
}
