package kubesim

import (
	"fmt"
	"sort"
	"strings"

	apierrors "k8s.io/apimachinery/pkg/api/errors"
	"k8s.io/apimachinery/pkg/runtime/schema"
	utiljson "k8s.io/apimachinery/pkg/util/json"
)

// A deliberately small model of server-side apply:
//   - the unit of ownership is a leaf path; maps merge by key;
//   - metadata.ownerReferences is an associative list keyed by uid (each entry is one leaf),
//     metadata.finalizers is a set (each value is one leaf); every other list is atomic;
//   - a manager that stops applying a leaf it owned removes it unless another manager also owns it;
//   - changing a leaf owned by another manager is a conflict unless forced; forced/equal
//     application shares or takes ownership;
//   - non-apply writers take ownership of the leaves they change.
// managedFields are not exposed on objects.

const sep = "\x1f"

var identityLeaves = map[string]bool{
	"apiVersion": true, "kind": true,
	"metadata" + sep + "name":                       true,
	"metadata" + sep + "namespace":                  true,
	"metadata" + sep + "uid":                        true,
	"metadata" + sep + "resourceVersion":            true,
	"metadata" + sep + "generation":                 true,
	"metadata" + sep + "creationTimestamp":          true,
	"metadata" + sep + "deletionTimestamp":          true,
	"metadata" + sep + "deletionGracePeriodSeconds": true,
	"metadata" + sep + "managedFields":              true,
}

func leavesOf(o map[string]any) map[string]any {
	out := map[string]any{}
	var walk func(prefix string, v any)
	walk = func(prefix string, v any) {
		switch t := v.(type) {
		case map[string]any:
			for k, x := range t {
				p := k
				if prefix != "" {
					p = prefix + sep + k
				}
				walk(p, x)
			}
		case []any:
			switch prefix {
			case "metadata" + sep + "ownerReferences":
				for _, e := range t {
					em, _ := e.(map[string]any)
					uid, _ := em["uid"].(string)
					out[prefix+sep+"[uid="+uid+"]"] = e
				}
			case "metadata" + sep + "finalizers":
				for _, e := range t {
					out[prefix+sep+"[v="+fmt.Sprint(e)+"]"] = e
				}
			default:
				out[prefix] = v
			}
		default:
			out[prefix] = v
		}
	}
	walk("", o)
	for k := range out {
		if identityLeaves[k] {
			delete(out, k)
		}
	}
	return out
}

func setLeaf(o map[string]any, path string, v any) {
	parts := strings.Split(path, sep)
	cur := o
	for i := 0; i < len(parts)-1; i++ {
		p := parts[i]
		if i == len(parts)-2 && strings.HasPrefix(parts[len(parts)-1], "[") {
			// list item leaf
			l, _ := cur[p].([]any)
			item := parts[len(parts)-1]
			if strings.HasPrefix(item, "[uid=") {
				uid := strings.TrimSuffix(strings.TrimPrefix(item, "[uid="), "]")
				replaced := false
				for j, e := range l {
					if em, ok := e.(map[string]any); ok {
						if u, _ := em["uid"].(string); u == uid {
							l[j] = runtimeDeepCopy(v)
							replaced = true
						}
					}
				}
				if !replaced {
					l = append(l, runtimeDeepCopy(v))
				}
			} else {
				found := false
				for _, e := range l {
					if jsonEqual(e, v) {
						found = true
					}
				}
				if !found {
					l = append(l, v)
				}
			}
			cur[p] = l
			return
		}
		next, ok := cur[p].(map[string]any)
		if !ok {
			next = map[string]any{}
			cur[p] = next
		}
		cur = next
	}
	cur[parts[len(parts)-1]] = runtimeDeepCopy(v)
}

func deleteLeaf(o map[string]any, path string) {
	parts := strings.Split(path, sep)
	var del func(cur map[string]any, i int)
	del = func(cur map[string]any, i int) {
		p := parts[i]
		if i == len(parts)-2 && strings.HasPrefix(parts[len(parts)-1], "[") {
			l, _ := cur[p].([]any)
			item := parts[len(parts)-1]
			var nl []any
			for _, e := range l {
				if strings.HasPrefix(item, "[uid=") {
					uid := strings.TrimSuffix(strings.TrimPrefix(item, "[uid="), "]")
					if em, ok := e.(map[string]any); ok {
						if u, _ := em["uid"].(string); u == uid {
							continue
						}
					}
				} else {
					val := strings.TrimSuffix(strings.TrimPrefix(item, "[v="), "]")
					if fmt.Sprint(e) == val {
						continue
					}
				}
				nl = append(nl, e)
			}
			if len(nl) == 0 {
				delete(cur, p)
			} else {
				cur[p] = nl
			}
			return
		}
		if i == len(parts)-1 {
			delete(cur, p)
			return
		}
		next, ok := cur[p].(map[string]any)
		if !ok {
			return
		}
		del(next, i+1)
		if len(next) == 0 {
			delete(cur, p)
		}
	}
	del(o, 0)
}

func (s *Store) owners(key Key, path string, except string) []string {
	var out []string
	for m, set := range s.managed[key] {
		if m == except {
			continue
		}
		if _, ok := set[path]; ok {
			out = append(out, m)
		}
	}
	sort.Strings(out)
	return out
}

// recordOwnership: a non-apply writer takes ownership of every leaf it changed or added;
// removed leaves are forgotten by everyone.
func (s *Store) recordOwnership(key Key, old, nw map[string]any, manager string) {
	if manager == "" {
		manager = "unknown"
	}
	ol := map[string]any{}
	if old != nil {
		ol = leavesOf(old)
	}
	nl := leavesOf(nw)
	ms := s.managed[key]
	if ms == nil {
		ms = map[string]map[string]struct{}{}
		s.managed[key] = ms
	}
	if ms[manager] == nil {
		ms[manager] = map[string]struct{}{}
	}
	for p, v := range nl {
		if strings.HasPrefix(p, "status"+sep) || p == "status" {
			continue
		}
		ov, had := ol[p]
		if had && jsonEqual(ov, v) {
			continue
		}
		for m, set := range ms {
			if m != manager {
				delete(set, p)
			}
		}
		ms[manager][p] = struct{}{}
	}
	for p := range ol {
		if _, still := nl[p]; !still {
			for _, set := range ms {
				delete(set, p)
			}
		}
	}
}

// applyOwnership records the result of an apply: the manager owns exactly the applied leaves;
// other managers lose leaves whose value the apply changed (forced) and keep equal ones.
func (s *Store) applyOwnership(key Key, old, nw map[string]any, manager string, applied map[string]any) {
	ms := s.managed[key]
	if ms == nil {
		ms = map[string]map[string]struct{}{}
		s.managed[key] = ms
	}
	ol := map[string]any{}
	if old != nil {
		ol = leavesOf(old)
	}
	set := map[string]struct{}{}
	for p, v := range applied {
		set[p] = struct{}{}
		if ov, had := ol[p]; had && !jsonEqual(ov, v) {
			for m, other := range ms {
				if m != manager {
					delete(other, p)
				}
			}
		}
	}
	ms[manager] = set
	nl := leavesOf(nw)
	for _, other := range ms {
		for p := range other {
			if _, still := nl[p]; !still {
				delete(other, p)
			}
		}
	}
}

func (s *Store) doApply(key Key, ki *KindInfo, old map[string]any, gvk schema.GroupVersionKind, ns, name string, data []byte, status bool, o reqOpts) (map[string]any, error) {
	var cfg map[string]any
	if err := utiljson.Unmarshal(data, &cfg); err != nil {
		return nil, apierrors.NewBadRequest("failed to create typed patch object: " + err.Error())
	}
	dropNulls(cfg)
	if o.manager == "" {
		return nil, apierrors.NewBadRequest("PatchOptions.meta.k8s.io \"\" is invalid: fieldManager: Required value: is required for apply patch")
	}
	if cg := gvkOf(cfg); cg.Kind != "" && cg != gvk {
		return nil, apierrors.NewBadRequest("apply patch kind/apiVersion does not match the request")
	}
	if n := MetaString(cfg, "name"); n != "" && n != name {
		return nil, apierrors.NewBadRequest("the name of the object (" + n + ") does not match the name on the URL (" + name + ")")
	}
	if ki.Namespaced {
		if n := MetaString(cfg, "namespace"); n != "" && n != ns {
			return nil, apierrors.NewBadRequest("the namespace of the provided object does not match the namespace sent on the request")
		}
	}
	if md := getMap(cfg, "metadata"); md != nil {
		if _, has := md["managedFields"]; has {
			return nil, apierrors.NewBadRequest("metadata.managedFields must be nil")
		}
	}
	if status {
		cfg = map[string]any{"apiVersion": cfg["apiVersion"], "kind": cfg["kind"], "status": cfg["status"]}
	} else if ki.HasStatus {
		delete(cfg, "status")
	}
	if old == nil {
		if status {
			return nil, apierrors.NewNotFound(s.gr(ki), name)
		}
		if err := s.checkNamespace(ki, ns, true); err != nil {
			return nil, err
		}
		nw := DeepCopyJSON(cfg)
		nw["apiVersion"] = gvk.GroupVersion().String()
		nw["kind"] = gvk.Kind
		md := ensureMap(nw, "metadata")
		md["name"] = name
		if ki.Namespaced {
			md["namespace"] = ns
		} else {
			delete(md, "namespace")
		}
		delete(md, "resourceVersion")
		delete(md, "deletionTimestamp")
		if o.dryRun {
			md["uid"] = "dry-run-uid"
			md["creationTimestamp"] = "2024-01-01T00:00:00Z"
		} else {
			if err := s.validateObject(ki, nw); err != nil {
				return nil, err
			}
			md["uid"] = s.nextUID()
			md["creationTimestamp"] = s.now()
		}
		ret, _, err := s.commit(key, ki, nil, nw, o, o.manager, leavesOf(cfg), true)
		return ret, err
	}
	if rv := MetaString(cfg, "resourceVersion"); rv != "" && rv != MetaString(old, "resourceVersion") {
		return nil, apierrors.NewConflict(s.gr(ki), name, fmt.Errorf("the object has been modified; please apply your changes to the latest version and try again"))
	}
	if uid := MetaString(cfg, "uid"); uid != "" && uid != MetaString(old, "uid") {
		return nil, apierrors.NewConflict(s.gr(ki), name, fmt.Errorf("Precondition failed: UID in precondition: %v, UID in object meta: %v", uid, MetaString(old, "uid")))
	}
	applied := leavesOf(cfg)
	ol := leavesOf(old)
	if !o.force {
		var conflicts []string
		for p, v := range applied {
			if ov, had := ol[p]; had && !jsonEqual(ov, v) {
				if others := s.owners(key, p, o.manager); len(others) > 0 {
					conflicts = append(conflicts, strings.ReplaceAll(p, sep, ".")+" (owned by "+strings.Join(others, ",")+")")
				}
			}
		}
		if len(conflicts) > 0 {
			sort.Strings(conflicts)
			return nil, apierrors.NewConflict(s.gr(ki), name, fmt.Errorf("Apply failed with %d conflicts: %s", len(conflicts), strings.Join(conflicts, "; ")))
		}
	}
	nw := DeepCopyJSON(old)
	paths := make([]string, 0, len(applied))
	for p := range applied {
		paths = append(paths, p)
	}
	sort.Strings(paths)
	for _, p := range paths {
		setLeaf(nw, p, applied[p])
	}
	if prev := s.managed[key][o.manager]; prev != nil {
		var drop []string
		for p := range prev {
			if _, still := applied[p]; still {
				continue
			}
			if len(s.owners(key, p, o.manager)) > 0 {
				continue
			}
			drop = append(drop, p)
		}
		sort.Strings(drop)
		for _, p := range drop {
			deleteLeaf(nw, p)
		}
	}
	ret, _, err := s.commit(key, ki, old, nw, o, o.manager, applied, true)
	return ret, err
}
