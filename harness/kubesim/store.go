// Package kubesim is a small, explicit, single-goroutine in-memory model of the
// Kubernetes API server behaviours Package Operator's controllers depend on.
// It implements controller-runtime's client.Client and records every request
// in a trace that the property monitors read.  See DESIGN.md section 3.1 for
// the list of fidelity items and the apiserver sources they were taken from.
package kubesim

import (
	"fmt"
	"sort"
	"strconv"
	"strings"

	"k8s.io/apimachinery/pkg/api/meta"
	"k8s.io/apimachinery/pkg/runtime"
	"k8s.io/apimachinery/pkg/runtime/schema"
	utiljson "k8s.io/apimachinery/pkg/util/json"
)

// KindInfo describes one served kind.
type KindInfo struct {
	GVK        schema.GroupVersionKind
	Namespaced bool
	// HasStatus: the kind has a status subresource (main-resource writes
	// keep the stored status, status writes keep everything else).
	HasStatus bool
	// Generation: metadata.generation is maintained (1 on create, +1 when
	// anything outside metadata/status changes).
	Generation bool
	Plural     string
	// OtherVersions are further served versions of the kind (same storage, no conversion: the schema is identical).
	OtherVersions []string
}

// Key identifies a stored object. Cluster-scoped kinds always have Namespace "".
type Key struct {
	Group, Kind, Namespace, Name string
}

func (k Key) String() string {
	g := k.Group
	if g == "" {
		g = "core"
	}
	return fmt.Sprintf("%s/%s %s/%s", g, k.Kind, k.Namespace, k.Name)
}

// Call is one traced API request.
type Call struct {
	Seq    int
	Pass   int    // id of the reconcile pass the call belongs to; 0 = outside any pass
	Actor  string // "pko", "user", "thirdparty", "workload", "gc", ...
	Source string // "client", "cache", "uncached", "target"
	Verb   string // get, list, create, update, update-status, patch, patch-status, delete, deleteallof
	Key    Key
	DryRun bool
	// PatchType for patches: "merge", "json", "apply".
	PatchType string
	Force     bool
	Manager   string
	// Preconditions carried by a delete.
	PreUID, PreRV *string
	Propagation   string
	// Body is the request body as JSON-shaped value (object for create/update, patch document for patch).
	Body any
	// Pre / Post are the stored object before and after the call (nil = absent).
	Pre, Post map[string]any
	// Resp is what was decoded into the caller's object (nil on error).
	Resp map[string]any
	Err  string
	// ErrReason is the metav1.StatusReason of an API error ("" if none / not an API error).
	ErrReason string
	// Injected marks an error produced by fault injection rather than by the model.
	Injected bool
	// NCall is the ordinal of this call within its pass (1-based, counts every request).
	NCall int

	recorded bool
}

// IsWrite reports whether the call is a state-changing verb (even if it ended up a no-op or failed).
func (c *Call) IsWrite() bool {
	switch c.Verb {
	case "get", "list":
		return false
	}
	return true
}

// Changed reports whether the call changed the stored state.
func (c *Call) Changed() bool {
	if c.DryRun || !c.IsWrite() {
		return false
	}
	if c.Pre == nil && c.Post == nil {
		return false
	}
	if c.Pre == nil || c.Post == nil {
		return true
	}
	return !jsonEqual(c.Pre, c.Post)
}

// Fault is what a hook may ask for.
type Fault int

const (
	FaultNone Fault = iota
	// FaultErrorBefore: the request fails before having any effect.
	FaultErrorBefore
	// FaultLostResponse: the effect happens, the caller gets an error.
	FaultLostResponse
	// FaultCrash: the process dies before the request is sent (panic with CrashSentinel).
	FaultCrash
	// FaultCrashAfter: the effect happens, then the process dies.
	FaultCrashAfter
	// FaultStatus*: the API server answers with a status error (no effect) of the given kind.
	FaultStatusInternal
	FaultStatusTooManyRequests
	FaultStatusUnavailable
	FaultStatusTimeout
)

// CrashSentinel is the panic value used to model a process crash.
type CrashSentinel struct{ Pass, NCall int }

// Store is the object store + trace.
type Store struct {
	Scheme *runtime.Scheme
	kinds  map[schema.GroupKind]*KindInfo
	mapper *meta.DefaultRESTMapper

	objs    map[Key]map[string]any
	managed map[Key]map[string]map[string]struct{} // key -> manager -> owned leaf paths

	rv  int64
	uid int64

	Trace []*Call

	// Current attribution, set by the engine.
	CurActor string
	CurPass  int
	nCall    int

	// BeforeCall is consulted for every request made while CurPass != 0.
	// It may perform third-party actions itself (it is called with tracing
	// attributed to the actor it sets) and returns a fault for this call.
	BeforeCall func(c *Call) Fault

	// Graceful lists kinds whose deletion is graceful even without finalizers (like Pods, or Namespaces
	// held by spec.finalizers): a delete only marks the object terminating; it disappears when
	// FinishTermination is called (kubelet / namespace controller actor).
	Graceful map[schema.GroupKind]bool

	// TraceReads controls whether get/list calls are recorded.
	TraceReads bool

	// Now is a logical clock used for timestamps (RFC3339 derived from a counter).
	tick int64
}

// NewStore creates an empty store serving the given kinds.
func NewStore(scheme *runtime.Scheme, kinds []KindInfo) *Store {
	s := &Store{
		Scheme:     scheme,
		kinds:      map[schema.GroupKind]*KindInfo{},
		objs:       map[Key]map[string]any{},
		managed:    map[Key]map[string]map[string]struct{}{},
		TraceReads: true,
	}
	var gvs []schema.GroupVersion
	seen := map[schema.GroupVersion]bool{}
	for i := range kinds {
		k := kinds[i]
		s.kinds[k.GVK.GroupKind()] = &k
		if !seen[k.GVK.GroupVersion()] {
			seen[k.GVK.GroupVersion()] = true
			gvs = append(gvs, k.GVK.GroupVersion())
		}
		for _, v := range k.OtherVersions {
			gv := schema.GroupVersion{Group: k.GVK.Group, Version: v}
			if !seen[gv] {
				seen[gv] = true
				gvs = append(gvs, gv)
			}
		}
	}
	s.mapper = meta.NewDefaultRESTMapper(gvs)
	for i := range kinds {
		k := kinds[i]
		scope := meta.RESTScopeRoot
		if k.Namespaced {
			scope = meta.RESTScopeNamespace
		}
		plural := k.Plural
		if plural == "" {
			plural = strings.ToLower(k.GVK.Kind) + "s"
		}
		s.mapper.AddSpecific(k.GVK, k.GVK.GroupVersion().WithResource(plural),
			k.GVK.GroupVersion().WithResource(strings.ToLower(k.GVK.Kind)), scope)
		for _, v := range k.OtherVersions {
			gvk := schema.GroupVersionKind{Group: k.GVK.Group, Version: v, Kind: k.GVK.Kind}
			s.mapper.AddSpecific(gvk, gvk.GroupVersion().WithResource(plural), gvk.GroupVersion().WithResource(strings.ToLower(k.GVK.Kind)), scope)
		}
	}
	return s
}

// RESTMapper returns the mapper over the served kinds.
func (s *Store) RESTMapper() meta.RESTMapper { return s.mapper }

// Kind returns the KindInfo for a group/kind, or nil if the kind is not served.
func (s *Store) Kind(gk schema.GroupKind) *KindInfo { return s.kinds[gk] }

// BeginPass starts attributing calls to a new pass id.
func (s *Store) BeginPass(id int) { s.CurPass = id; s.nCall = 0 }

// EndPass stops pass attribution.
func (s *Store) EndPass() { s.CurPass = 0; s.nCall = 0 }

// RV returns the current global resourceVersion counter (changes iff stored state changed).
func (s *Store) RV() int64 { return s.rv }

func (s *Store) nextRV() string { s.rv++; return strconv.FormatInt(s.rv, 10) }

func (s *Store) nextUID() string { s.uid++; return "uid-" + strconv.FormatInt(s.uid, 10) }

func (s *Store) now() string {
	s.tick++
	// A fixed epoch plus a logical tick in seconds keeps timestamps deterministic.
	sec := s.tick
	h := (sec / 3600) % 24
	m := (sec / 60) % 60
	ss := sec % 60
	return fmt.Sprintf("2024-01-01T%02d:%02d:%02dZ", h, m, ss)
}

// Keys returns all keys, sorted (deterministic iteration).
func (s *Store) Keys() []Key {
	keys := make([]Key, 0, len(s.objs))
	for k := range s.objs {
		keys = append(keys, k)
	}
	sort.Slice(keys, func(i, j int) bool { return keys[i].String() < keys[j].String() })
	return keys
}

// Peek returns a deep copy of the stored object or nil. Not traced.
func (s *Store) Peek(k Key) map[string]any {
	o, ok := s.objs[k]
	if !ok {
		return nil
	}
	return DeepCopyJSON(o)
}

// PeekNoCopy returns the stored object itself (read-only use!). Not traced.
func (s *Store) PeekNoCopy(k Key) map[string]any { return s.objs[k] }

// Snapshot deep-copies the whole store content (for differential checks).
func (s *Store) Snapshot() map[Key]map[string]any {
	out := make(map[Key]map[string]any, len(s.objs))
	for k, v := range s.objs {
		out[k] = DeepCopyJSON(v)
	}
	return out
}

// KeyFor computes the storage key for a gvk/namespace/name, clearing the
// namespace of cluster-scoped kinds. ok=false if the kind is not served.
func (s *Store) KeyFor(gvk schema.GroupVersionKind, ns, name string) (Key, *KindInfo, bool) {
	ki := s.kinds[gvk.GroupKind()]
	if ki == nil {
		return Key{}, nil, false
	}
	if !ki.Namespaced {
		ns = ""
	}
	return Key{Group: gvk.Group, Kind: gvk.Kind, Namespace: ns, Name: name}, ki, true
}

// DeepCopyJSON copies a JSON-shaped value.
func DeepCopyJSON(m map[string]any) map[string]any {
	if m == nil {
		return nil
	}
	return runtime.DeepCopyJSON(m)
}

// Normalize round-trips a value through JSON with the Kubernetes decoder so
// that numbers are int64/float64 as a real client would see them, and drops
// null map members (the API server never stores them).
func Normalize(v any) (map[string]any, error) {
	b, err := utiljson.Marshal(v)
	if err != nil {
		return nil, err
	}
	var out map[string]any
	if err := utiljson.Unmarshal(b, &out); err != nil {
		return nil, err
	}
	dropNulls(out)
	return out, nil
}

func dropNulls(v any) {
	switch t := v.(type) {
	case map[string]any:
		for k, x := range t {
			if x == nil {
				delete(t, k)
				continue
			}
			dropNulls(x)
		}
	case []any:
		for _, x := range t {
			dropNulls(x)
		}
	}
}

func jsonEqual(a, b any) bool {
	switch x := a.(type) {
	case map[string]any:
		y, ok := b.(map[string]any)
		if !ok || len(x) != len(y) {
			return false
		}
		for k, v := range x {
			w, ok := y[k]
			if !ok || !jsonEqual(v, w) {
				return false
			}
		}
		return true
	case []any:
		y, ok := b.([]any)
		if !ok || len(x) != len(y) {
			return false
		}
		for i := range x {
			if !jsonEqual(x[i], y[i]) {
				return false
			}
		}
		return true
	case nil:
		return b == nil
	case int64:
		switch y := b.(type) {
		case int64:
			return x == y
		case float64:
			return float64(x) == y
		}
		return false
	case float64:
		switch y := b.(type) {
		case int64:
			return x == float64(y)
		case float64:
			return x == y
		}
		return false
	default:
		return a == b
	}
}

// JSONEqual compares two JSON-shaped values.
func JSONEqual(a, b any) bool { return jsonEqual(a, b) }

// nested helpers -------------------------------------------------------------

func getMap(m map[string]any, path ...string) map[string]any {
	cur := m
	for _, p := range path {
		next, ok := cur[p].(map[string]any)
		if !ok {
			return nil
		}
		cur = next
	}
	return cur
}

func ensureMap(m map[string]any, path ...string) map[string]any {
	cur := m
	for _, p := range path {
		next, ok := cur[p].(map[string]any)
		if !ok {
			next = map[string]any{}
			cur[p] = next
		}
		cur = next
	}
	return cur
}

func getString(m map[string]any, path ...string) string {
	if len(path) == 0 {
		return ""
	}
	mm := getMap(m, path[:len(path)-1]...)
	if mm == nil {
		return ""
	}
	s, _ := mm[path[len(path)-1]].(string)
	return s
}

// MetaString reads metadata.<field> as string.
func MetaString(o map[string]any, field string) string { return getString(o, "metadata", field) }

func gvkOf(o map[string]any) schema.GroupVersionKind {
	av, _ := o["apiVersion"].(string)
	k, _ := o["kind"].(string)
	return schema.FromAPIVersionAndKind(av, k)
}

// FinishTermination removes a terminating object of a graceful kind that has no finalizers left.
func (s *Store) FinishTermination(k Key) bool {
	o, ok := s.objs[k]
	if !ok || MetaString(o, "deletionTimestamp") == "" || len(finalizersOf(o)) > 0 {
		return false
	}
	s.Trace = append(s.Trace, &Call{Seq: len(s.Trace) + 1, Actor: "kubelet", Source: "client", Verb: "delete", Key: k, Pre: DeepCopyJSON(o), Post: nil, recorded: true})
	delete(s.objs, k)
	delete(s.managed, k)
	s.rv++
	return true
}
