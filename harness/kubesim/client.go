package kubesim

import (
	"context"
	"errors"
	"fmt"
	"reflect"
	"strings"

	apierrors "k8s.io/apimachinery/pkg/api/errors"
	"k8s.io/apimachinery/pkg/api/meta"
	metav1 "k8s.io/apimachinery/pkg/apis/meta/v1"
	"k8s.io/apimachinery/pkg/apis/meta/v1/unstructured"
	"k8s.io/apimachinery/pkg/labels"
	"k8s.io/apimachinery/pkg/runtime"
	"k8s.io/apimachinery/pkg/runtime/schema"
	"k8s.io/apimachinery/pkg/types"
	"sigs.k8s.io/controller-runtime/pkg/client"
	"sigs.k8s.io/controller-runtime/pkg/client/apiutil"
)

// Client is a client.Client view on a Store. Source tags its calls in the trace.
type Client struct {
	S      *Store
	Source string
	// Filter, if set, hides objects from Get/List (used to model the label-selected dynamic cache).
	Filter func(obj map[string]any) bool
	// Actor overrides Store.CurActor for calls made through this client when non-empty.
	Actor string
}

var _ client.Client = (*Client)(nil)

// NewClient returns a client on the store.
func (s *Store) NewClient(source string) *Client { return &Client{S: s, Source: source} }

// ErrInjected is the error returned for injected faults.
type InjectedError struct{ Kind string }

func (e *InjectedError) Error() string { return "injected fault: " + e.Kind }

func (c *Client) actor() string {
	if c.Actor != "" {
		return c.Actor
	}
	return c.S.CurActor
}

func (c *Client) begin(verb string, key Key) *Call {
	s := c.S
	return &Call{Seq: len(s.Trace) + 1, Pass: s.CurPass, Actor: c.actor(), Source: c.Source, Verb: verb, Key: key}
}

// fire numbers the call within its pass and consults the fault/injection hook. It is called
// after the request fields (dry run, patch type, ...) are filled in.
func (c *Client) fire(call *Call) Fault {
	s := c.S
	fault := FaultNone
	if s.CurPass != 0 && c.Actor == "" {
		s.nCall++
		call.NCall = s.nCall
		if s.BeforeCall != nil {
			hook := s.BeforeCall
			// third-party actions performed by the hook must not recurse into the hook
			s.BeforeCall = nil
			pass, ncall, actor := s.CurPass, s.nCall, s.CurActor
			fault = hook(call)
			s.CurPass, s.nCall, s.CurActor = pass, ncall, actor
			s.BeforeCall = hook
			call.Seq = len(s.Trace) + 1
		}
	}
	return fault
}

func (c *Client) record(call *Call) {
	if call.recorded || (!c.S.TraceReads && !call.IsWrite()) {
		return
	}
	call.recorded = true
	call.Seq = len(c.S.Trace) + 1
	c.S.Trace = append(c.S.Trace, call)
}

func setErr(call *Call, err error) {
	if err == nil {
		return
	}
	call.Err = err.Error()
	var st apierrors.APIStatus
	if errors.As(err, &st) {
		call.ErrReason = string(st.Status().Reason)
	}
	var inj *InjectedError
	if errors.As(err, &inj) {
		call.Injected = true
	}
}

func (c *Client) gvkFor(obj runtime.Object) (schema.GroupVersionKind, error) {
	return apiutil.GVKForObject(obj, c.S.Scheme)
}

// ToMap converts a client object into its JSON-shaped form with apiVersion/kind set.
func (c *Client) ToMap(obj client.Object) (map[string]any, schema.GroupVersionKind, error) {
	gvk, err := c.gvkFor(obj)
	if err != nil {
		return nil, gvk, err
	}
	var m map[string]any
	if u, ok := obj.(*unstructured.Unstructured); ok {
		m, err = Normalize(u.Object)
	} else {
		m, err = Normalize(obj)
	}
	if err != nil {
		return nil, gvk, err
	}
	m["apiVersion"] = gvk.GroupVersion().String()
	m["kind"] = gvk.Kind
	return m, gvk, nil
}

// FromMap decodes a stored object into a client object (replacing its content).
func FromMap(m map[string]any, obj runtime.Object) error {
	if u, ok := obj.(*unstructured.Unstructured); ok {
		u.Object = DeepCopyJSON(m)
		return nil
	}
	v := reflect.ValueOf(obj)
	if v.Kind() == reflect.Ptr && !v.IsNil() {
		v.Elem().Set(reflect.Zero(v.Elem().Type()))
	}
	return runtime.DefaultUnstructuredConverter.FromUnstructured(m, obj)
}

func (c *Client) visible(m map[string]any) bool {
	return c.Filter == nil || c.Filter(m)
}

// Get implements client.Reader.
func (c *Client) Get(_ context.Context, key client.ObjectKey, obj client.Object, _ ...client.GetOption) error {
	gvk, err := c.gvkFor(obj)
	if err != nil {
		return err
	}
	k, _, _ := c.S.KeyFor(gvk, key.Namespace, key.Name)
	if k.Kind == "" {
		k = Key{Group: gvk.Group, Kind: gvk.Kind, Namespace: key.Namespace, Name: key.Name}
	}
	call := c.begin("get", k)
	defer c.record(call)
	fault := c.fire(call)
	switch fault {
	case FaultCrash, FaultCrashAfter:
		call.Err = "crash"
		call.Injected = true
		c.record(call)
		panic(CrashSentinel{Pass: call.Pass, NCall: call.NCall})
	case FaultErrorBefore, FaultLostResponse:
		e := &InjectedError{Kind: "read failed"}
		setErr(call, e)
		return e
	}
	m, err := c.S.doGet(gvk, key.Namespace, key.Name)
	if err == nil && !c.visible(m) {
		ki := c.S.kinds[gvk.GroupKind()]
		err = apierrors.NewNotFound(c.S.gr(ki), key.Name)
		m = nil
	}
	if err != nil {
		setErr(call, err)
		return err
	}
	call.Pre, call.Post, call.Resp = m, m, m
	return FromMap(m, obj)
}

// List implements client.Reader.
func (c *Client) List(_ context.Context, list client.ObjectList, opts ...client.ListOption) error {
	gvk, err := c.gvkFor(list)
	if err != nil {
		return err
	}
	gvk.Kind = strings.TrimSuffix(gvk.Kind, "List")
	lo := client.ListOptions{}
	lo.ApplyOptions(opts)
	call := c.begin("list", Key{Group: gvk.Group, Kind: gvk.Kind, Namespace: lo.Namespace})
	defer c.record(call)
	fault := c.fire(call)
	switch fault {
	case FaultCrash, FaultCrashAfter:
		call.Err = "crash"
		call.Injected = true
		c.record(call)
		panic(CrashSentinel{Pass: call.Pass, NCall: call.NCall})
	case FaultErrorBefore, FaultLostResponse:
		e := &InjectedError{Kind: "read failed"}
		setErr(call, e)
		return e
	}
	var sel labels.Selector
	if lo.LabelSelector != nil {
		sel = lo.LabelSelector
	}
	items, err := c.S.doList(gvk, lo.Namespace, sel)
	if err != nil {
		setErr(call, err)
		return err
	}
	var vis []map[string]any
	for _, it := range items {
		if c.visible(it) {
			vis = append(vis, it)
		}
	}
	names := make([]any, len(vis))
	for i, it := range vis {
		names[i] = MetaString(it, "namespace") + "/" + MetaString(it, "name")
	}
	call.Body = names
	if ul, ok := list.(*unstructured.UnstructuredList); ok {
		ul.Items = nil
		for _, it := range vis {
			ul.Items = append(ul.Items, unstructured.Unstructured{Object: it})
		}
		return nil
	}
	objs := make([]runtime.Object, 0, len(vis))
	for _, it := range vis {
		o, err := c.S.Scheme.New(gvk)
		if err != nil {
			return err
		}
		if err := FromMap(it, o); err != nil {
			return err
		}
		objs = append(objs, o)
	}
	return meta.SetList(list, objs)
}

func (c *Client) finishWrite(call *Call, fault Fault, obj runtime.Object, ret map[string]any, err error) error {
	if err != nil {
		setErr(call, err)
		return err
	}
	switch fault {
	case FaultLostResponse:
		e := &InjectedError{Kind: "response lost"}
		setErr(call, e)
		return e
	case FaultCrashAfter:
		call.Err = "crash-after"
		call.Injected = true
		c.record(call)
		panic(CrashSentinel{Pass: call.Pass, NCall: call.NCall})
	}
	call.Resp = ret
	if obj != nil && ret != nil {
		return FromMap(ret, obj)
	}
	return nil
}

func (c *Client) preFault(call *Call, fault Fault) error {
	switch fault {
	case FaultCrash:
		call.Err = "crash"
		call.Injected = true
		c.record(call)
		panic(CrashSentinel{Pass: call.Pass, NCall: call.NCall})
	case FaultErrorBefore:
		e := &InjectedError{Kind: "request failed"}
		setErr(call, e)
		return e
	case FaultStatusInternal, FaultStatusTooManyRequests, FaultStatusUnavailable, FaultStatusTimeout:
		var e error
		switch fault {
		case FaultStatusInternal:
			e = apierrors.NewInternalError(errors.New("injected: etcdserver: request timed out"))
		case FaultStatusTooManyRequests:
			e = apierrors.NewTooManyRequests("injected: too many requests", 1)
		case FaultStatusUnavailable:
			e = apierrors.NewServiceUnavailable("injected: apiserver is shutting down")
		default:
			e = apierrors.NewTimeoutError("injected: request did not complete within the allowed duration", 1)
		}
		setErr(call, e)
		call.Injected = true
		return e
	}
	return nil
}

func (c *Client) manager(explicit string) string {
	if explicit != "" {
		return explicit
	}
	return "actor:" + c.actor()
}

// Create implements client.Writer.
func (c *Client) Create(_ context.Context, obj client.Object, opts ...client.CreateOption) error {
	m, gvk, err := c.ToMap(obj)
	if err != nil {
		return err
	}
	co := client.CreateOptions{}
	co.ApplyOptions(opts)
	k, _, _ := c.S.KeyFor(gvk, obj.GetNamespace(), obj.GetName())
	if k.Kind == "" {
		k = Key{Group: gvk.Group, Kind: gvk.Kind, Namespace: obj.GetNamespace(), Name: obj.GetName()}
	}
	call := c.begin("create", k)
	defer c.record(call)
	call.DryRun = len(co.DryRun) > 0
	call.Body = m
	call.Manager = c.manager(co.FieldManager)
	fault := c.fire(call)
	call.Pre = c.S.Peek(k)
	call.Post = call.Pre
	if err := c.preFault(call, fault); err != nil {
		return err
	}
	ret, err := c.S.doCreate(m, reqOpts{dryRun: call.DryRun, manager: call.Manager})
	call.Post = c.S.Peek(k)
	return c.finishWrite(call, fault, obj, ret, err)
}

// Update implements client.Writer.
func (c *Client) Update(_ context.Context, obj client.Object, opts ...client.UpdateOption) error {
	uo := client.UpdateOptions{}
	uo.ApplyOptions(opts)
	return c.update(obj, false, len(uo.DryRun) > 0, uo.FieldManager)
}

func (c *Client) update(obj client.Object, status, dryRun bool, fm string) error {
	m, gvk, err := c.ToMap(obj)
	if err != nil {
		return err
	}
	k, _, _ := c.S.KeyFor(gvk, obj.GetNamespace(), obj.GetName())
	verb := "update"
	if status {
		verb = "update-status"
	}
	call := c.begin(verb, k)
	defer c.record(call)
	call.DryRun = dryRun
	call.Body = m
	call.Manager = c.manager(fm)
	fault := c.fire(call)
	call.Pre = c.S.Peek(k)
	call.Post = call.Pre
	if err := c.preFault(call, fault); err != nil {
		return err
	}
	ret, err := c.S.doUpdate(m, status, reqOpts{dryRun: dryRun, manager: call.Manager})
	call.Post = c.S.Peek(k)
	return c.finishWrite(call, fault, obj, ret, err)
}

// Patch implements client.Writer.
func (c *Client) Patch(_ context.Context, obj client.Object, patch client.Patch, opts ...client.PatchOption) error {
	po := client.PatchOptions{}
	po.ApplyOptions(opts)
	return c.patch(obj, patch, false, po)
}

func (c *Client) patch(obj client.Object, patch client.Patch, status bool, po client.PatchOptions) error {
	gvk, err := c.gvkFor(obj)
	if err != nil {
		return err
	}
	data, err := patch.Data(obj)
	if err != nil {
		return err
	}
	var pt string
	switch patch.Type() {
	case types.MergePatchType:
		pt = "merge"
	case types.JSONPatchType:
		pt = "json"
	case types.ApplyPatchType:
		pt = "apply"
	case types.StrategicMergePatchType:
		pt = "merge" // PKO never uses it; typed MergeFrom on built-ins would. Treated as merge.
	default:
		return fmt.Errorf("unsupported patch type %s", patch.Type())
	}
	k, _, _ := c.S.KeyFor(gvk, obj.GetNamespace(), obj.GetName())
	if k.Kind == "" {
		k = Key{Group: gvk.Group, Kind: gvk.Kind, Namespace: obj.GetNamespace(), Name: obj.GetName()}
	}
	verb := "patch"
	if status {
		verb = "patch-status"
	}
	call := c.begin(verb, k)
	defer c.record(call)
	call.DryRun = len(po.DryRun) > 0
	call.PatchType = pt
	call.Force = po.Force != nil && *po.Force
	call.Body = parseJSON(data)
	if pt == "apply" {
		call.Manager = po.FieldManager
	} else {
		call.Manager = c.manager(po.FieldManager)
	}
	fault := c.fire(call)
	call.Pre = c.S.Peek(k)
	call.Post = call.Pre
	if err := c.preFault(call, fault); err != nil {
		return err
	}
	ret, err := c.S.doPatch(gvk, obj.GetNamespace(), obj.GetName(), pt, data, status,
		reqOpts{dryRun: call.DryRun, manager: call.Manager, force: call.Force})
	call.Post = c.S.Peek(k)
	return c.finishWrite(call, fault, obj, ret, err)
}

// Delete implements client.Writer.
func (c *Client) Delete(_ context.Context, obj client.Object, opts ...client.DeleteOption) error {
	gvk, err := c.gvkFor(obj)
	if err != nil {
		return err
	}
	do := client.DeleteOptions{}
	do.ApplyOptions(opts)
	k, _, _ := c.S.KeyFor(gvk, obj.GetNamespace(), obj.GetName())
	if k.Kind == "" {
		k = Key{Group: gvk.Group, Kind: gvk.Kind, Namespace: obj.GetNamespace(), Name: obj.GetName()}
	}
	call := c.begin("delete", k)
	defer c.record(call)
	call.DryRun = len(do.DryRun) > 0
	if do.Preconditions != nil {
		if do.Preconditions.UID != nil {
			u := string(*do.Preconditions.UID)
			call.PreUID = &u
		}
		if do.Preconditions.ResourceVersion != nil {
			r := *do.Preconditions.ResourceVersion
			call.PreRV = &r
		}
	}
	if do.PropagationPolicy != nil {
		call.Propagation = string(*do.PropagationPolicy)
	}
	fault := c.fire(call)
	call.Pre = c.S.Peek(k)
	call.Post = call.Pre
	if err := c.preFault(call, fault); err != nil {
		return err
	}
	err = c.S.doDelete(gvk, obj.GetNamespace(), obj.GetName(), call.PreUID, call.PreRV, call.Propagation, reqOpts{dryRun: call.DryRun, immediate: do.GracePeriodSeconds != nil && *do.GracePeriodSeconds == 0})
	call.Post = c.S.Peek(k)
	return c.finishWrite(call, fault, nil, nil, err)
}

// DeleteAllOf implements client.Writer.
func (c *Client) DeleteAllOf(ctx context.Context, obj client.Object, opts ...client.DeleteAllOfOption) error {
	gvk, err := c.gvkFor(obj)
	if err != nil {
		return err
	}
	dao := client.DeleteAllOfOptions{}
	dao.ApplyOptions(opts)
	items, err := c.S.doList(gvk, dao.Namespace, dao.LabelSelector)
	if err != nil {
		return err
	}
	for _, it := range items {
		u := &unstructured.Unstructured{Object: it}
		if err := c.Delete(ctx, u); err != nil && !apierrors.IsNotFound(err) {
			return err
		}
	}
	return nil
}

// Status implements client.StatusClient.
func (c *Client) Status() client.SubResourceWriter { return &statusWriter{c} }

// SubResource implements client.SubResourceClientConstructor.
func (c *Client) SubResource(sub string) client.SubResourceClient {
	if sub == "status" {
		return &statusWriter{c}
	}
	panic("kubesim: unsupported subresource " + sub)
}

// Scheme implements client.Client.
func (c *Client) Scheme() *runtime.Scheme { return c.S.Scheme }

// RESTMapper implements client.Client.
func (c *Client) RESTMapper() meta.RESTMapper { return c.S.mapper }

// GroupVersionKindFor implements client.Client.
func (c *Client) GroupVersionKindFor(obj runtime.Object) (schema.GroupVersionKind, error) {
	return c.gvkFor(obj)
}

// IsObjectNamespaced implements client.Client.
func (c *Client) IsObjectNamespaced(obj runtime.Object) (bool, error) {
	gvk, err := c.gvkFor(obj)
	if err != nil {
		return false, err
	}
	ki := c.S.kinds[gvk.GroupKind()]
	if ki == nil {
		return false, noKind(gvk)
	}
	return ki.Namespaced, nil
}

type statusWriter struct{ c *Client }

func (w *statusWriter) Get(context.Context, client.Object, client.Object, ...client.SubResourceGetOption) error {
	panic("kubesim: subresource get not supported")
}

func (w *statusWriter) Create(context.Context, client.Object, client.Object, ...client.SubResourceCreateOption) error {
	panic("kubesim: subresource create not supported")
}

func (w *statusWriter) Update(_ context.Context, obj client.Object, opts ...client.SubResourceUpdateOption) error {
	uo := client.SubResourceUpdateOptions{}
	uo.ApplyOptions(opts)
	return w.c.update(obj, true, len(uo.DryRun) > 0, uo.FieldManager)
}

func (w *statusWriter) Patch(_ context.Context, obj client.Object, patch client.Patch, opts ...client.SubResourcePatchOption) error {
	spo := client.SubResourcePatchOptions{}
	spo.ApplyOptions(opts)
	return w.c.patch(obj, patch, true, spo.PatchOptions)
}

// helper for callers constructing delete preconditions etc.
var _ = metav1.StatusReasonConflict
